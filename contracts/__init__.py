from . import runtime_c, boolean_c  # noqa: F401
