from . import runtime_c, boolean_c, branching_c, guard_c  # noqa: F401
