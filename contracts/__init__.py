from . import (runtime_c, boolean_c, branching_c, guard_c, backend_c, snarkjs_c, selection_c, exit_c,  # noqa: F401
               fixedpoint_c, array_c, snark_c, branchctx_c, hash_c, zkif_c, qaptools_c, pack_c)
