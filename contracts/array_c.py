"""Contracts for pysnark/array.py and linalg.py (C15): secret-index reads and writes."""
import z3
from .common import *
from .boolean_c import is01

MODS = ("pysnark.runtime", "pysnark.boolean", "pysnark.fixedpoint", "pysnark.branching", "pysnark.array")


def _arr_mod(c):
    return c.w.modules["pysnark.array"]


def _elems(c, n, kind, prefix="e"):
    if kind == "secret":
        return [c.operand("%s%d" % (prefix, j)) for j in range(n)]
    return [c.public_int("%s%d" % (prefix, j)) for j in range(n)]


def _val(c, e):
    return c.v(e) if not isinstance(e, int) else term(e)


def _eva(c, e):
    return c.eva(e) if not isinstance(e, int) else term(e) % c.p


class _Arr(Contract):
    modules = MODS
    vprops = ("C15",)
    sprops = ("C15", "C02")
    eprops = ("C15",)
    tprops = ("C15", "C06")
    guard_relevant = False

    def use_stub(self, c, *a, **k):
        return False


@register
class ArrayGet(_Arr):
    """arr[i] for a secret i: the element at i; IndexError outside [0,n); same constraints for every i."""
    name = "pysnark.array:Array.__getitem__"

    def configs(self, tier):
        ns = (1, 2, 3) if tier == "quick" else (1, 2, 3, 4, 6)
        out = [dict(mode=m, n=n, elems=k) for n in ns for m in ("plain", "ie") for k in ("secret", "const")]
        out.append(dict(mode="plain", n=7, elems="const"))        # a length with three 1-bits
        out += [dict(mode="plain", n=2, elems="secret", index="int%d" % i, **({"raises_only": True} if i == 2 else {})) for i in (0, 1, 2)]
        return out

    def setup(self, c, cfg):
        apply_mode(c, cfg["mode"])
        A = _arr_mod(c).Array(_elems(c, cfg["n"], cfg["elems"]))
        self._A = A
        self._old = list(A.arr)
        if cfg.get("index", "").startswith("int"):
            return type(A).__getitem__, (A, int(cfg["index"][3:])), {}
        return type(A).__getitem__, (A, c.operand("i")), {}

    def pre(self, c, A, i):
        return [canon(c, c.v(i))] if not isinstance(i, int) else []

    def raises(self, c, A, i):
        n = len(A.arr)
        if isinstance(i, int):
            return [(IndexError, Or(i >= n, i < -n))]
        return [(IndexError, And(Not(ie(c)), Or(c.v(i) < 0, c.v(i) >= n)))]

    def post(self, c, r, A, i):
        n = len(A.arr)
        d = {"F.array_unchanged": list(A.arr) == self._old and all(a is b for a, b in zip(A.arr, self._old))}
        if isinstance(i, int):
            d["V.element"] = r is self._old[i]
            return d
        iv, ia = c.v(i), c.eva(i)
        inb = And(iv >= 0, iv < n)
        d["V.value"] = Implies(inb, Eq(c.v(r), z3.Sum([z3.IntVal(0)] + [If(iv == j, _val(c, e), 0) for j, e in enumerate(self._old)])))
        d["V.inv"] = c.inv(r)
        d["S.unique"] = Implies(And(on(c), c.tied(i), inb, *[c.tied(e) for e in self._old if not isinstance(e, int)]),
                                c.eva(r) == c.v(r) % c.p)
        d["S.selects_indexed_wire"] = Implies(on(c), Or(*[And(ia == j, c.eva(r) == _eva(c, e)) for j, e in enumerate(self._old)]))
        d["E.out_of_range_unprovable"] = Implies(And(on(c), c.tied(i)), inb)
        if n > 1:
            d["canary.S.selects_indexed_wire"] = Implies(on(c), Or(*[And(ia == j, c.eva(r) == _eva(c, self._old[(j + 1) % n])) for j in range(n)]))
        return d


@register
class ArraySet(_Arr):
    """arr[i] = v for a secret i: exactly element i is replaced, all others keep their value."""
    name = "pysnark.array:Array.__setitem__"

    def configs(self, tier):
        ns = (1, 2, 3) if tier == "quick" else (1, 2, 3, 4, 6)
        return [dict(mode=m, n=n, elems=k) for n in ns for m in ("plain", "ie") for k in ("secret", "const")]

    def setup(self, c, cfg):
        apply_mode(c, cfg["mode"])
        A = _arr_mod(c).Array(_elems(c, cfg["n"], cfg["elems"]))
        self._old = list(A.arr)
        return type(A).__setitem__, (A, c.operand("i"), c.operand("v")), {}

    def pre(self, c, A, i, v):
        return [canon(c, c.v(i))]

    def raises(self, c, A, i, v):
        return [(IndexError, And(Not(ie(c)), Or(c.v(i) < 0, c.v(i) >= len(self._old))))]

    def post(self, c, r, A, i, v):
        n = len(self._old)
        iv, ia = c.v(i), c.eva(i)
        inb = And(iv >= 0, iv < n)
        d = {"V.length": len(A.arr) == n}
        if not d["V.length"]:
            return d
        tied = And(c.tied(i), c.tied(v), *[c.tied(e) for e in self._old if not isinstance(e, int)])
        for j in range(n):
            new, old = A.arr[j], self._old[j]
            d["V.element[%d]" % j] = Implies(inb, Eq(_val(c, new), If(iv == j, c.v(v), _val(c, old))))
            if not isinstance(new, int):
                d["V.inv[%d]" % j] = c.inv(new)
                d["S.unique[%d]" % j] = Implies(And(on(c), tied, inb), c.eva(new) == c.v(new) % c.p)
        d["E.out_of_range_unprovable"] = Implies(And(on(c), c.tied(i)), inb)
        return d


@register
class ArrayGet2D(_Arr):
    """arr[i, j] on an array of arrays, both indices secret."""
    name = "pysnark.array:Array.__getitem__#2d"

    def configs(self, tier):
        out = [dict(mode="plain", shape=s) for s in ((2, 2),) + (((2, 3), (3, 2)) if tier != "quick" else ())]
        out += [dict(mode="plain", shape=(2, 2), rows=r, index=ix) for r in ("array", "arrayrow") for ix in ("is", "si", "ii")]
        out += [dict(mode="plain", shape=(2, 2), rows="arrayrow", index="ss")]
        return out

    def setup(self, c, cfg):
        apply_mode(c, cfg["mode"])
        am = _arr_mod(c)
        rows, cols = cfg["shape"]
        self._vals = [[c.operand("e%d%d" % (a, b)) for b in range(cols)] for a in range(rows)]
        mk = (lambda row: am.Array(row)) if cfg.get("rows", "array") == "array" else (lambda row: am.ArrayRow(am.Array(row)))
        A = am.Array([mk(row) for row in self._vals])
        ix = cfg.get("index", "ss")
        i = c.operand("i") if ix[0] == "s" else rows - 1
        j = c.operand("j") if ix[1] == "s" else cols - 1
        return type(A).__getitem__, (A, (i, j)), {}

    def pre(self, c, A, ij):
        return [canon(c, c.v(x)) for x in ij]

    def raises(self, c, A, ij):
        rows, cols = len(self._vals), len(self._vals[0])
        i, j = c.v(ij[0]), c.v(ij[1])
        return [(IndexError, Or(i < 0, i >= rows, j < 0, j >= cols))]

    def post(self, c, r, A, ij):
        i, j = c.v(ij[0]), c.v(ij[1])
        want = z3.Sum([If(And(i == a, j == b), c.v(e), 0) for a, row in enumerate(self._vals) for b, e in enumerate(row)])
        return {"V.value": Eq(c.v(r), want), "V.inv": c.inv(r)}


@register
class ArrayGet3D(_Arr):
    """arr[i, j, k] on a 2x2x2 array of arrays of arrays, for every mix of secret and plain indices: the element at
    that index (every index of the tuple is applied, none is dropped)."""
    name = "pysnark.array:Array.__getitem__#3d"

    def configs(self, tier):
        return [dict(mode="plain", index=ix) for ix in ("sss", "sis", "sii", "iss", "ssi", "isi", "iis")]

    def setup(self, c, cfg):
        apply_mode(c, cfg["mode"])
        am = _arr_mod(c)
        self._vals = [[[c.operand("e%d%d%d" % (a, b, d)) for d in range(2)] for b in range(2)] for a in range(2)]
        A = am.Array([am.Array([am.Array(cell) for cell in plane]) for plane in self._vals])
        ix = cfg["index"]
        idx = tuple(c.operand("ijk"[n]) if ix[n] == "s" else 1 for n in range(3))
        return type(A).__getitem__, (A, idx), {}

    def pre(self, c, A, idx):
        return [canon(c, c.v(x)) for x in idx if not isinstance(x, int)]

    def raises(self, c, A, idx):
        vs = [c.v(x) if not isinstance(x, int) else term(x) for x in idx]
        return [(IndexError, Or(*[Or(v < 0, v >= 2) for v in vs]))]

    def post(self, c, r, A, idx):
        vs = [c.v(x) if not isinstance(x, int) else term(x) for x in idx]
        ok = hasattr(r, "lc") or isinstance(r, int)
        d = {"V.returns_an_element": ok}
        if ok:
            rv = c.v(r) if hasattr(r, "lc") else term(r)
            want = z3.Sum([If(And(vs[0] == a, vs[1] == b, vs[2] == e), c.v(self._vals[a][b][e]), 0)
                           for a in range(2) for b in range(2) for e in range(2)])
            d["V.value"] = Eq(rv, want)
            if hasattr(r, "lc"):
                d["V.inv"] = c.inv(r)
        return d


@register
class ArraySet2D(_Arr):
    """arr[i, j] = v on an array of arrays: exactly that cell changes, whatever mix of secret and public indices
    is used and whether the rows are Arrays or rows returned by a secret-index read (ArrayRow)."""
    name = "pysnark.array:Array.__setitem__#2d"

    def configs(self, tier):
        out = []
        for rows in ("array", "arrayrow"):
            for ix in ("ss", "is", "si", "ii"):
                out.append(dict(mode="plain", shape=(2, 2), rows=rows, index=ix))
        # every row built from ONE template list (Array(tmpl) for each row): rows do not share storage
        for ix in ("ss", "is", "si"):
            out.append(dict(mode="plain", shape=(2, 2), rows="array", index=ix, template=True))
        return out

    def _ix(self, c, kind, name, n):
        return c.operand(name) if kind == "s" else n - 1

    def setup(self, c, cfg):
        apply_mode(c, cfg["mode"])
        am = _arr_mod(c)
        rows, cols = cfg["shape"]
        self._vals = [[c.operand("e%d%d" % (a, b)) for b in range(cols)] for a in range(rows)]
        if cfg.get("template"):
            tmpl = list(self._vals[0])
            self._vals = [list(tmpl) for _ in range(rows)]          # what the cells held before the write
            A = am.Array([am.Array(tmpl) for _ in range(rows)])     # ... every row constructed from the same list object
            self._tmpl, self._tmpl_copy = tmpl, list(tmpl)
        else:
            mk = (lambda row: am.Array(row)) if cfg.get("rows", "array") == "array" else (lambda row: am.ArrayRow(am.Array(row)))
            A = am.Array([mk(row) for row in self._vals])
        ix = cfg.get("index", "ss")
        return type(A).__setitem__, (A, (self._ix(c, ix[0], "i", rows), self._ix(c, ix[1], "j", cols)), c.operand("v")), {}

    def pre(self, c, A, ij, v):
        return [canon(c, c.v(x)) for x in ij]

    def raises(self, c, A, ij, v):
        rows, cols = len(self._vals), len(self._vals[0])
        i, j = c.v(ij[0]), c.v(ij[1])
        return [(IndexError, Or(i < 0, i >= rows, j < 0, j >= cols))]

    def post(self, c, r, A, ij, v):
        i, j = c.v(ij[0]), c.v(ij[1])
        d = {"V.shape": len(A.arr) == len(self._vals) and all(len(A.arr[a].arr) == len(row) for a, row in enumerate(self._vals))}
        if not d["V.shape"]:
            return d
        for a, row in enumerate(self._vals):
            for b, e in enumerate(row):
                new = A.arr[a].arr[b]
                d["V.cell[%d,%d]" % (a, b)] = Eq(c.v(new), If(And(i == a, j == b), c.v(v), c.v(e)))
                d["V.inv[%d,%d]" % (a, b)] = c.inv(new)
        if c.cfg.get("template"):
            d["F.callers_list_untouched"] = len(self._tmpl) == len(self._tmpl_copy) and all(x is y for x, y in zip(self._tmpl, self._tmpl_copy))
        return d


@register
class ArrayRowSet(_Arr):
    """a[i][j] = v through a returned row is refused (it would silently not write back)."""
    name = "pysnark.array:ArrayRow.__setitem__"

    def configs(self, tier):
        return [dict(mode="plain", raises_only=True)]

    def setup(self, c, cfg):
        apply_mode(c, cfg["mode"])
        am = _arr_mod(c)
        row = am.ArrayRow(am.Array([c.operand("e0"), c.operand("e1")]))
        return am.ArrayRow.__setitem__, (row, c.operand("j"), c.operand("v")), {}

    def raises(self, c, row, j, v):
        return [(TypeError, True)]


@register
class LinCombination(_Arr):
    """linalg.lin_comb(cofs, vals) = sum_j cofs[j] * vals[j]"""
    name = "pysnark.linalg:lin_comb"

    def configs(self, tier):
        # lengths 7, 11, 15: every shape a divide-and-conquer summation can take (odd at several levels)
        return [dict(mode="plain", n=n) for n in (1, 2, 3, 7, 11, 15)]

    def setup(self, c, cfg):
        apply_mode(c, cfg["mode"])
        lm = c.w.import_module("pysnark.linalg")
        self._c = [c.operand_bool("c%d" % j) for j in range(cfg["n"])]
        self._v = [c.operand("v%d" % j) for j in range(cfg["n"])]
        return lm.lin_comb, (self._c, self._v), {}

    def post(self, c, r, cofs, vals):
        return {"V.value": Eq(c.v(r), z3.Sum([imul(c.v(a), c.v(b)) for a, b in zip(cofs, vals)])),
                "V.inv": c.inv(r)}


# ---------------------------------------------------------------------------
# element-wise array arithmetic and linalg helpers
# ---------------------------------------------------------------------------

class _ArrOp(_Arr):
    spec = None
    other = "array"

    def configs(self, tier):
        return [dict(mode="plain", n=n) for n in (1, 3)]

    def setup(self, c, cfg):
        apply_mode(c, cfg["mode"])
        am = _arr_mod(c)
        self._a = [c.operand("a%d" % j) for j in range(cfg["n"])]
        A = am.Array(list(self._a))
        if self.other == "array":
            self._b = [c.operand("b%d" % j) for j in range(cfg["n"])]
            o = am.Array(list(self._b))
        elif self.other == "secret":
            o = c.operand("s")
        else:
            o = c.public_int("k")
        self._o = o
        return getattr(am.Array, self.name.rsplit(".", 1)[1].split("#")[0]), (A, o), {}

    def post(self, c, r, A, o):
        am = _arr_mod(c)
        d = {"V.type": isinstance(r, am.Array) and len(r.arr) == len(self._a),
             "F.operands_unchanged": all(x is y for x, y in zip(A.arr, self._a))}
        if not d["V.type"]:
            return d
        cl = []
        for j, x in enumerate(r.arr):
            ov = c.v(self._b[j]) if self.other == "array" else (c.v(o) if self.other == "secret" else term(o))
            cl.append(Eq(c.v(x), self.spec(c.v(self._a[j]), ov)))
        d["V.values"] = And(*cl)
        d["V.inv"] = And(*[c.inv(x) for x in r.arr])
        return d


@register
class ArrAdd(_ArrOp):
    name = "pysnark.array:Array.__add__"
    spec = staticmethod(lambda a, b: a + b)


@register
class ArrAddScalar(_ArrOp):
    name = "pysnark.array:Array.__add__#scalar"
    other = "int"
    spec = staticmethod(lambda a, b: a + b)


@register
class ArrSub(_ArrOp):
    name = "pysnark.array:Array.__sub__"
    spec = staticmethod(lambda a, b: a - b)


@register
class ArrScale(_ArrOp):
    name = "pysnark.array:Array.__rmul__"
    other = "secret"
    spec = staticmethod(lambda a, b: imul(b, a))


@register
class ArrScaleInt(_ArrOp):
    name = "pysnark.array:Array.__rmul__#int"
    other = "int"
    spec = staticmethod(lambda a, b: imul(b, a))


@register
class ArrAssertEq(_Arr):
    """Array.assert_eq: element-wise equality enforced; different lengths are refused"""
    name = "pysnark.array:Array.assert_eq"
    sprops = ("C15", "C03")
    vprops = ("C15", "C03")

    def configs(self, tier):
        return [dict(mode=m, n=2, m2=k) for m in ("plain", "ie") for k in (2, 3)]

    def setup(self, c, cfg):
        apply_mode(c, cfg["mode"])
        am = _arr_mod(c)
        self._a = [c.operand("a%d" % j) for j in range(cfg["n"])]
        self._b = [c.operand("b%d" % j) for j in range(cfg["m2"])]
        return am.Array.assert_eq, (am.Array(list(self._a)), am.Array(list(self._b))), {}

    covers_normal = False

    def raises(self, c, A, B):
        if len(self._a) != len(self._b):
            return [(ValueError, True)]
        return [(AssertionError, And(Not(ie(c)), Or(*[c.v(x) != c.v(y) for x, y in zip(self._a, self._b)])))]

    def post(self, c, r, A, B):
        tied = And(*[c.tied(x) for x in self._a + self._b])
        sm = And(*[small(c, c.v(x), c.v(y)) for x, y in zip(self._a, self._b)])
        return {"E.enforced": Implies(And(on(c), tied, sm), And(*[c.v(x) == c.v(y) for x, y in zip(self._a, self._b)]))}


def small(c, *ts):
    q = c.p // 4
    return And(*[And(t > -q, t < q) for t in ts])


@register
class ArraySetMixedKinds(_Arr):
    """arr[i] = v for a secret i where the elements and the written value are of DIFFERENT secret kinds (boolean flags,
    integers, fixed-point numbers): still exactly element i is replaced, and every other element keeps the NUMBER it
    represented (an element that had to change type to share a list with the new value is converted, not rescaled
    twice or left unscaled)."""
    name = "pysnark.array:Array.__setitem__#mixed_kinds"
    eprops = ()
    sprops = ()
    tprops = ()
    skip_facets = "TN"

    def configs(self, tier):
        return [dict(mode="plain", n=2, elems=e, value=v, res=3) for e, v in (("bool", "fxp"), ("int", "fxp"), ("bool", "int"), ("fxp", "int"))]

    def setup(self, c, cfg):
        apply_mode(c, cfg["mode"], bitlength=6)
        c.w.modules["pysnark.fixedpoint"].resolution = cfg["res"]
        mk = {"bool": lambda nm: c.operand_bool(nm), "int": lambda nm: c.operand(nm), "fxp": lambda nm: c.mk_fxp(c.operand(nm))}
        self._old = [mk[cfg["elems"]]("e%d" % j) for j in range(cfg["n"])]
        A = _arr_mod(c).Array(list(self._old))
        return type(A).__setitem__, (A, c.operand("i"), mk[cfg["value"]]("v")), {}

    def pre(self, c, A, i, v):
        return [canon(c, c.v(i)), (1 << (c.bitlength + 1)) < c.p]

    raises_unspecified = True

    def post(self, c, r, A, i, v):
        R = 1 << c.cfg["res"]
        n = len(self._old)
        iv = c.v(i)
        inb = And(iv >= 0, iv < n)
        d = {"V.length": len(A.arr) == n}
        if not d["V.length"]:
            return d

        def number(o):
            """(numerator, denominator) of the number a secret object represents"""
            return (c.v(o), R) if isinstance(o, c.LinCombFxp) else (c.v(o), 1)
        for j in range(n):
            new, old = A.arr[j], self._old[j]
            nn, nd = number(new)
            on_, od = number(old)
            vn, vd = number(v)
            # cross-multiplied equality of rationals with positive denominators
            d["V.element[%d]" % j] = Implies(inb, If(iv == j, nn * vd == vn * nd, nn * od == on_ * nd))
            d["V.inv[%d]" % j] = c.inv(new)
        return d
