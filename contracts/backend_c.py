"""Contracts for the backend layer (C13): linear-combination algebra of every proof-producing
backend, variable allocation, modulus and field inverse.  Unbounded: operands are arbitrary
finite maps / sequences (pyvc.symcoll), loops are cut by the pointwise invariants below."""
import types
import z3
from .common import *
from pyvc.symcoll import SymMap, SymList, MapLoop, instantiate
from pyvc.interp import _TypeProxy
from pyvc import ghost as gh

SNARKJS = "pysnark.snarkjsbackend"
ZKIF = "pysnark.zkinterface.backend"
QAP = "pysnark.qaptools.backend"

# published scalar-field orders, written here independently of /repo
BN254_R = 21888242871839275222246405745257275088548364400416034343698204186575808495617
BLS12_381_R = 0x73eda753299d7d483339d80809a1d80553bda402fffe5bfeffffffff00000001
CURVE25519_L = 2**252 + 27742317777372353535851937790883648493


def miller_rabin(n, rounds=64):
    if n < 2:
        return False
    small = [2, 3, 5, 7, 11, 13, 17, 19, 23, 29, 31, 37]
    for q in small:
        if n % q == 0:
            return n == q
    d, r = n - 1, 0
    while d % 2 == 0:
        d //= 2
        r += 1
    import random
    rnd = random.Random(12345)
    for _ in range(rounds):
        a = rnd.randrange(2, n - 1)
        x = pow(a, d, n)
        if x in (1, n - 1):
            continue
        for _ in range(r - 1):
            x = x * x % n
            if x == n - 1:
                break
        else:
            return False
    return True


class _DictProxy(_TypeProxy):
    real = dict


def _stub_world(w):
    """Dependencies that are absent in this sandbox: only their presence matters for the
    functions under contract here (nothing of them is called)."""
    fb = types.ModuleType("flatbuffers")
    fbc = types.ModuleType("flatbuffers.compat")
    fbc.import_numpy = lambda: None
    fb.compat = fbc
    w.module_overrides["flatbuffers"] = fb
    w.module_overrides["flatbuffers.compat"] = fbc
    sh = types.ModuleType("shutil")
    sh.which = lambda exe: "/stub/" + str(exe)
    w.module_overrides["shutil"] = sh
    sp = types.ModuleType("subprocess")
    w.module_overrides["subprocess"] = sp


# The file-format properties say "decodes to exactly the traced constraint system": the traced system IS what these
# backend operations build, so their contracts are obligations of the format property of their backend as well.
FORMAT_PROP = {"pysnark.snarkjsbackend": "C10", "pysnark.zkinterface.backend": "C11", "pysnark.qaptools.backend": "C12"}


class _Backend(Contract):
    layer = "backend"
    module = SNARKJS
    cprops = sprops = eprops = tprops = ()

    @property
    def vprops(self):
        x = FORMAT_PROP.get(self.module)
        return ("C13",) + ((x,) if x else ())

    @property
    def fprops(self):
        return self.vprops
    guard_relevant = False
    prime = BN254_R

    @property
    def modules(self):
        return (self.module,)

    def world_setup(self, w):
        _stub_world(w)

    def use_stub(self, c, *a, **k):
        return False

    def mod(self, c):
        return c.w.modules[self.module]


def _inv1(env, D, k):
    s, o, lc = env["self"].lc, env["other"].lc, env["lc"]
    sel = z3.Select
    return z3.And(z3.Implies(sel(D, k), sel(s.dom, k)),
                  sel(lc.dom, k) == sel(D, k),
                  z3.Implies(sel(D, k), sel(lc.val, k) == z3.If(sel(o.dom, k), sel(s.val, k) + sel(o.val, k), sel(s.val, k))))


def _inv2(env, D, k):
    s, o, lc = env["self"].lc, env["other"].lc, env["lc"]
    sel = z3.Select
    return z3.And(z3.Implies(sel(D, k), sel(o.dom, k)),
                  sel(lc.dom, k) == z3.Or(sel(s.dom, k), sel(D, k)),
                  z3.Implies(sel(s.dom, k), sel(lc.val, k) == z3.If(sel(o.dom, k), sel(s.val, k) + sel(o.val, k), sel(s.val, k))),
                  z3.Implies(z3.And(z3.Not(sel(s.dom, k)), sel(D, k)), sel(lc.val, k) == sel(o.val, k)))


class _LCOp(_Backend):
    """LinearCombination.<op> of the dict-based backends (snarkjs, zkinterface)."""
    op = None
    loop_needs_confirmation = True

    @staticmethod
    def optional_cfg(cfg):
        return cfg.get("shape") == "arbitrary finite maps"

    # ... the last two: the SAME variables on both sides, inserted in a different order
    SHAPES = [((), ()), ((0,), ()), ((), (1, 2)), ((1,), (1,)), ((1,), (0, 1, -1)), ((0, 1, -1), (1,)), ((0, 2), (1, -3)), ((-1, -2, 3), (-2, 3, 4)),
              ((1, 2), (2, 1)), ((0, 1, -1), (-1, 0, 1))]

    def configs(self, tier):
        # the unbounded proof (loop invariants) and, next to it, the same clauses on concrete key sets with
        # symbolic coefficients: no invariant is involved there, so a rewritten loop is still decided
        out = [dict(shape="arbitrary finite maps")] + [dict(shape="keys", a=list(x), b=list(y)) for x, y in self.SHAPES]
        if self.module == ZKIF:
            # the derived zkinterface backends ARE this module after set_modulus: the algebra is that of the field
            # selected NOW (coefficients may be reduced, but only modulo the current prime)
            out += [dict(shape="keys", a=[0, 1, -1], b=[1, -1], switch=q) for q in ("bls12_381", "curve25519")]
        return out

    def setup(self, c, cfg):
        m = self.mod(c)
        LC = m.LinearCombination
        self._prime = self.prime
        if cfg.get("switch"):
            self._prime = gh.PRIMES[cfg["switch"]]
            m.set_modulus(self._prime)
            cur().p = self._prime
            c.g.p = self._prime
        if cfg["shape"] == "keys":
            da = {k: SymInt(z3.Int("s_a%d" % i)) for i, k in enumerate(cfg["a"])}
            db = {k: SymInt(z3.Int("s_b%d" % i)) for i, k in enumerate(cfg["b"])}
            a = LC(da)
            b = LC(db) if self.op in ("__add__", "__sub__") else (c.public_int("k") if self.op == "__mul__" else None)
            self._saved = (dict(da), dict(db))
            fn = getattr(LC, self.op)
            return fn, (a,) if b is None else (a, b), {}
        a = LC(SymMap("a"))
        b = LC(SymMap("b")) if self.op in ("__add__", "__sub__") else (c.public_int("k") if self.op == "__mul__" else None)
        c.w.builtins["dict"] = _DictProxy(lambda *x, **y: SymMap.empty("lc") if not x and not y else
                                          (x[0].copy() if len(x) == 1 and isinstance(x[0], SymMap) and not y else dict(*x, **y)))
        addname = self.module + ":LinearCombination.__add__"
        c.w.loop_hooks[(addname, 0)] = MapLoop(["lc"], _inv1, "add.loop1")
        c.w.loop_hooks[(addname, 1)] = MapLoop(["lc"], _inv2, "add.loop2")
        self._a, self._b = a, b
        fn = getattr(LC, self.op)
        return fn, (a,) if b is None else (a, b), {}

    def spec(self, ca, cb):
        raise NotImplementedError

    def post_keys(self, c, r, a, b):
        """the same clauses on concrete key sets (coefficients symbolic)"""
        LC = self.mod(c).LinearCombination
        d = {"V.type": isinstance(r, LC) and isinstance(r.lc, dict)}
        if not d["V.type"]:
            return d
        sa, sb = self._saved
        co = lambda dd, k: term(dd[k]) if k in dd else z3.IntVal(0)
        keys = set(sa) | set(sb) | set(r.lc)
        if self.op in ("__add__", "__sub__"):
            sgn = 1 if self.op == "__add__" else -1
            d["V.coefficients"] = And(*[modeq(co(r.lc, k), co(sa, k) + sgn * co(sb, k), self._prime) for k in keys]) if keys else True
            d["V.support"] = set(r.lc) <= set(sa) | set(sb)
            d["F.operands_unchanged"] = (list(a.lc.items()) == list(sa.items()) and list(b.lc.items()) == list(sb.items())
                                         and all(a.lc[k] is sa[k] for k in sa) and all(b.lc[k] is sb[k] for k in sb))
            d["F.fresh_result"] = r is not a and r is not b and r.lc is not a.lc and r.lc is not b.lc
        elif self.op == "__mul__":
            d["V.coefficients"] = And(*[modeq(co(r.lc, k), imul(co(sa, k), term(b)), self._prime) for k in keys]) if keys else True
            d["V.support"] = set(r.lc) == set(sa)
            d["F.operands_unchanged"] = list(a.lc.items()) == list(sa.items()) and all(a.lc[k] is sa[k] for k in sa)
            d["F.fresh_result"] = r is not a and r.lc is not a.lc
        else:
            d["V.coefficients"] = And(*[modeq(co(r.lc, k), -co(sa, k), self._prime) for k in keys]) if keys else True
            d["V.support"] = set(r.lc) == set(sa)
            d["F.operands_unchanged"] = list(a.lc.items()) == list(sa.items()) and all(a.lc[k] is sa[k] for k in sa)
            d["F.fresh_result"] = r is not a and r.lc is not a.lc
        return d

    def post(self, c, r, a, b=None):
        if c.cfg.get("shape") == "keys":
            return self.post_keys(c, r, a, b)
        k = cur().fresh("k")
        instantiate(k)
        LC = self.mod(c).LinearCombination
        d = {"V.type": isinstance(r, LC) and isinstance(r.lc, SymMap)}
        if not d["V.type"]:
            return d
        sel = z3.Select
        if self.op in ("__add__", "__sub__"):
            sgn = 1 if self.op == "__add__" else -1
            d["V.coefficients"] = modeq(r.lc.coef(k), a.lc.coef(k) + sgn * b.lc.coef(k), self.prime)
            d["V.support"] = Implies(sel(r.lc.dom, k), Or(sel(a.lc.dom, k), sel(b.lc.dom, k)))
            d["F.operands_unchanged"] = a.lc.unchanged() and b.lc.unchanged()
            d["F.fresh_result"] = r is not a and r is not b and r.lc is not a.lc and r.lc is not b.lc
            d["canary.V.coefficients"] = modeq(r.lc.coef(k), a.lc.coef(k), self.prime)
        elif self.op == "__mul__":
            d["V.coefficients"] = And(sel(r.lc.dom, k) == sel(a.lc.dom, k),
                                      Implies(sel(a.lc.dom, k), modeq(sel(r.lc.val, k), imul(sel(a.lc.val, k), term(b)), self.prime)))
            d["F.operands_unchanged"] = a.lc.unchanged()
            d["F.fresh_result"] = r is not a and r.lc is not a.lc
        else:
            d["V.coefficients"] = And(sel(r.lc.dom, k) == sel(a.lc.dom, k),
                                      Implies(sel(a.lc.dom, k), modeq(sel(r.lc.val, k), -sel(a.lc.val, k), self.prime)))
            d["F.operands_unchanged"] = a.lc.unchanged()
            d["F.fresh_result"] = r is not a and r.lc is not a.lc
        return d


def _mk_lc_contracts(module, tag):
    out = []
    for op in ("__add__", "__sub__", "__mul__", "__neg__"):
        cls = type("LC%s%s" % (tag, op.strip("_").title()), (_LCOp,),
                   dict(name="%s:LinearCombination.%s" % (module, op), module=module, op=op,
                        __doc__="%s LinearCombination.%s: exact pointwise coefficient arithmetic, operands untouched" % (module, op)))
        register(cls)
        out.append(cls)
    return out


_mk_lc_contracts(SNARKJS, "Snarkjs")
_mk_lc_contracts(ZKIF, "Zkif")


class _Alloc(_Backend):
    """privval / pubval: append exactly one value, return the unit combination of the new variable."""
    fn = None
    lst = None
    sign = None

    def configs(self, tier):
        return [dict(shape="arbitrary allocation history")]

    def setup(self, c, cfg):
        m = self.mod(c)
        L = SymList(self.lst, 1)
        setattr(m, self.lst, L)
        self._n0 = L.length
        self._L = L
        self._old = L.elem
        oldfn, oldcols = L.fn, list(L.cols)
        self._old = (lambda i: (oldfn(i) if oldfn is not None else tuple(z3.Select(cl, i) for cl in oldcols)))
        v = SymInt(z3.Int("s_v"))
        return getattr(m, self.fn), (v,), {}

    def post(self, c, r, val):
        m = self.mod(c)
        L = getattr(m, self.lst)
        k = cur().fresh("k")
        i = cur().fresh("i")
        n0 = self._n0
        LC = m.LinearCombination
        idx = self.sign * (n0 + 1)
        d = {
            "F.same_list_object": L is self._L,
            "F.one_value_appended": L.length == n0 + 1,
            "F.appended_value": L.elem(n0)[0] == term(val),
            "F.history_unchanged": Implies(And(i >= 0, i < n0), L.elem(i)[0] == self._old(i)[0]),
            "V.type": isinstance(r, LC),
        }
        if isinstance(r.lc, SymMap):
            d["V.unit_of_new_variable"] = r.lc.coef(k) == If(k == idx, 1, 0)
        else:
            d["V.unit_of_new_variable"] = False
        return d


def _mk_alloc(module, tag):
    for fn, lst, sign in (("privval", "privvals", -1), ("pubval", "pubvals", 1)):
        register(type("Alloc%s%s" % (tag, fn), (_Alloc,), dict(name="%s:%s" % (module, fn), module=module, fn=fn, lst=lst, sign=sign)))


_mk_alloc(SNARKJS, "Snarkjs")
_mk_alloc(ZKIF, "Zkif")


class _Consts(_Backend):
    """zero() / one(): fresh objects evaluating to 0 / 1; get_modulus(): the curve's scalar-field order."""
    expected = BN254_R
    pre_import = ()
    probe = True

    def configs(self, tier):
        return [dict()]

    @property
    def modules(self):
        return tuple(self.pre_import) + (self.module,)

    def setup(self, c, cfg):
        m = self.mod(c)

        def probe():
            return (m.zero(), m.zero(), m.one(), m.one(), m.get_modulus())
        self._entered = False
        c.w.target = None
        return probe, (), {}

    def post(self, c, r):
        z1, z2, o1, o2, p = r
        return {
            "V.zero_empty": isinstance(z1.lc, dict) and z1.lc == {},
            "V.one_unit": isinstance(o1.lc, dict) and o1.lc == {0: 1},
            "F.fresh_objects": z1 is not z2 and o1 is not o2 and z1.lc is not z2.lc and o1.lc is not o2.lc,
            "V.modulus_is_scalar_field_order": p == self.expected,
            "V.modulus_prime(miller_rabin_64)": miller_rabin(p),
        }


@register
class ConstsSnarkjs(_Consts):
    name = SNARKJS + ":get_modulus"


@register
class ConstsZkif(_Consts):
    name = ZKIF + ":get_modulus"
    module = ZKIF


@register
class ConstsBellman(_Consts):
    """importing backendbellman switches the zkinterface backend to the BLS12-381 scalar field"""
    name = ZKIF + ":set_modulus"
    module = ZKIF
    pre_import = ("pysnark.zkinterface.backendbellman",)
    expected = BLS12_381_R

    def post(self, c, r):
        d = super().post(c, r)
        m = self.mod(c)
        d["V.BL_bytes"] = m.BL == (self.expected.bit_length() + 7) // 8
        return d


@register
class ConstsBulletproofs(ConstsBellman):
    name = ZKIF + ":set_modulus#bulletproofs"
    pre_import = ("pysnark.zkinterface.backendbulletproofs",)
    expected = CURVE25519_L


class _FieldInverse(_Backend):
    """fieldinverse(v): for every v != 0 mod p (negative and unreduced included) the result r
    satisfies 0 <= r < p and v*r = 1 mod p; ZeroDivisionError iff v = 0 mod p.  p is the modulus the backend
    reports NOW: where the backend can be switched to another field (zkinterface set_modulus), also after a
    switch, and also when inverses were computed before the switch (`warm`)."""
    switchable = False

    def configs(self, tier):
        out = [dict(), dict(v=3), dict(v=-7)]
        if self.switchable:
            for q in ("bls12_381", "curve25519"):
                out += [dict(switch=q), dict(switch=q, v=3, warm=True), dict(switch=q, v=-7, warm=True)]
        return out

    def setup(self, c, cfg):
        m = self.mod(c)
        self._p = gh.PRIMES[cfg["switch"]] if cfg.get("switch") else self.prime
        v = cfg["v"] if "v" in cfg else SymInt(z3.Int("s_v"))
        if cfg.get("warm"):
            m.fieldinverse(v)                  # an inverse computed while the previous field was selected
        if cfg.get("switch"):
            m.set_modulus(self._p)
        cur().p = self._p
        c.g.p = self._p
        return m.fieldinverse, (v,), {}

    def raises(self, c, v):
        return [(ZeroDivisionError, term(v) % self._p == 0)]

    def post(self, c, r, v):
        p = self._p
        return {
            "V.range": And(term(r) >= 0, term(r) < p),
            "V.inverse": fmul(term(v) % p, term(r)) == 1,
            "V.inverse_int": imul(term(v), term(r)) % p == 1,
            "V.plain_int": isinstance(r, int),
            "V.reported_modulus": self.mod(c).get_modulus() == p,
        }


@register
class FieldInverseSnarkjs(_FieldInverse):
    name = SNARKJS + ":fieldinverse"


@register
class FieldInverseZkif(_FieldInverse):
    name = ZKIF + ":fieldinverse"
    module = ZKIF
    switchable = True
    # C19: "the reported backend name identifies ... the field it works in": the derived zkinterface backends are this
    # module after set_modulus, so every field-dependent function must follow the switch
    vprops = ("C13", "C11", "C19")
    fprops = ("C13", "C11", "C19")


@register
class GmpyInvert(_Backend):
    """pysnark.gmpy.invert (pure-Python branch, gmpy2 absent): modular inverse for prime m."""
    name = "pysnark.gmpy:invert"
    module = "pysnark.gmpy"

    def configs(self, tier):
        return [dict(prime=n) for n in ("bn254", "bls12_381", "curve25519")] + [dict(m=2), dict(m=7)]

    def setup(self, c, cfg):
        p = cfg.get("m") or gh.PRIMES[cfg["prime"]]
        cur().p = p
        c.g.p = p
        self._p = p
        return self.mod(c).invert, (SymInt(z3.Int("s_x")), p), {}

    def raises(self, c, x, m):
        return [(ZeroDivisionError, term(x) % m == 0)]

    def post(self, c, r, x, m):
        return {"V.range": And(term(r) > 0, term(r) < m), "V.inverse": fmul(term(x) % m, term(r)) == 1}


# ---------------------------------------------------------------------------
# qaptools: Sig is a list of (coefficient, wire name) pairs
# ---------------------------------------------------------------------------

# loop-free companion shapes for the Sig operations: concrete wire names (repeated on purpose), symbolic coefficients
SIG_SHAPES = [
    (["w1", "w1", "w2"], ["w1", "w3"]),
    ([], ["w1"]),
    (["w1", "w2", "w1", "w1"], ["w2", "w1", "w1"]),
    # a single term on a wire the other operand mentions twice (x+1)+(y+1) + 1; ... once; ... not at all
    (["x", "one", "y", "one"], ["one"]),
    (["x", "one"], ["one"]),
    (["x", "y"], ["one"]),
]


class _SigOp(_Backend):
    """Sig (qaptools linear combination) algebra.  Two kinds of configuration: arbitrary sequences (what the code on the
    pinned tree does: concatenation / element-wise scaling, stated pointwise), and concrete shapes with symbolic
    coefficients where the clause is the algebraic one the property needs: per wire, the coefficients of the result sum
    to the sum / difference / multiple of the operands' coefficients modulo p."""
    module = QAP
    op = None

    @staticmethod
    def optional_cfg(cfg):
        return cfg.get("shape", "").startswith("arbitrary sequences")

    def configs(self, tier):
        out = [dict(shape="arbitrary sequences of (coefficient, wire) pairs")]
        for i in range(len(SIG_SHAPES)):
            if self.op == "__mul__":
                out += [dict(shape="concrete", idx=i, k=k) for k in (3, -2, 0)]
            else:
                out.append(dict(shape="concrete", idx=i))
        return out

    def setup(self, c, cfg):
        m = self.mod(c)
        if cfg["shape"] == "concrete":
            na, nb = SIG_SHAPES[cfg["idx"]]
            a = m.Sig([(SymInt(z3.Int("s_a%d" % i)), w) for i, w in enumerate(na)])
            if self.op in ("__add__", "__sub__"):
                b = m.Sig([(SymInt(z3.Int("s_b%d" % i)), w) for i, w in enumerate(nb)])
            elif self.op == "__mul__":
                b = cfg["k"]
            else:
                b = None
            self._a0 = list(a.sig)
            self._b0 = list(b.sig) if hasattr(b, "sig") else None
            return getattr(m.Sig, self.op), (a,) if b is None else (a, b), {}
        a = m.Sig(SymList("a", 2))
        b = m.Sig(SymList("b", 2)) if self.op in ("__add__", "__sub__") else (c.public_int("k") if self.op == "__mul__" else None)
        return getattr(m.Sig, self.op), (a,) if b is None else (a, b), {}

    def _post_concrete(self, c, r, a, b):
        m = self.mod(c)
        p = m.vc_p
        d = {"V.type": isinstance(r, m.Sig) and isinstance(r.sig, list) and all(isinstance(t, tuple) and len(t) == 2 and isinstance(t[1], str) for t in r.sig),
             "F.operands_unchanged": list(a.sig) == self._a0 and (self._b0 is None or list(b.sig) == self._b0),
             "F.fresh_result": r is not a and (not hasattr(b, "sig") or r is not b)}
        if not d["V.type"]:
            return d
        wires = sorted({w for _, w in self._a0} | {w for _, w in (self._b0 or [])} | {w for _, w in r.sig})
        tot = lambda sig, w: z3.Sum([z3.IntVal(0)] + [term(cf) for cf, v in sig if v == w])
        for w in wires:
            A = tot(self._a0, w)
            if self.op == "__add__":
                want = A + tot(self._b0, w)
            elif self.op == "__sub__":
                want = A - tot(self._b0, w)
            elif self.op == "__mul__":
                want = A * b
            else:
                want = -A
            d["V.coefficient_sum[%s]" % w] = modeq(tot(r.sig, w), want, p)
        d["canary.V.coefficient_sum"] = modeq(tot(r.sig, wires[0]), tot(self._a0, wires[0]) + 1, p) if wires else False
        return d

    def post(self, c, r, a, b=None):
        if c.cfg["shape"] == "concrete":
            return self._post_concrete(c, r, a, b)
        m = self.mod(c)
        p = m.vc_p
        i = cur().fresh("i")
        d = {"V.type": isinstance(r, m.Sig) and isinstance(r.sig, SymList)}
        if not d["V.type"]:
            return d
        la = a.sig.length
        inb = And(i >= 0, i < r.sig.length)
        rc, rv = r.sig.elem(i)
        ac, av = a.sig.elem(i)
        d["F.fresh_result"] = r is not a and r.sig is not a.sig
        d["V.modulus"] = p == BN254_R
        if self.op in ("__add__", "__sub__"):
            bc, bv = b.sig.elem(i - la)
            sgn_b = bc if self.op == "__add__" else (-bc) % p
            d["V.length"] = r.sig.length == la + b.sig.length
            d["V.left_part"] = Implies(And(inb, i < la), And(rc == ac, rv == av))
            d["V.right_part"] = Implies(And(inb, i >= la), And(rc == sgn_b, rv == bv))
            d["canary.V.right_part"] = Implies(And(inb, i >= la), And(rc == ac, rv == bv))
        elif self.op == "__mul__":
            d["V.length"] = r.sig.length == la
            d["V.elements"] = Implies(inb, And(rc == imul(ac, term(b)) % p, rv == av))
            d["V.reduced"] = Implies(inb, And(rc >= 0, rc < p))
        else:
            d["V.length"] = r.sig.length == la
            d["V.elements"] = Implies(inb, And(rc == (-ac) % p, rv == av))
            d["V.reduced"] = Implies(inb, And(rc >= 0, rc < p))
        return d


@register
class SigStr(_Backend):
    """str(Sig): the text that goes into the equation file, `c1 w1 c2 w2 ...` with the coefficients in decimal; parsing it
    back gives the same (coefficient, wire) pairs.  (Concrete coefficients: text cannot be symbolic.)"""
    name = QAP + ":Sig.__str__"
    module = QAP
    vprops = ("C13", "C12")          # C12 names the textual linear combinations as its first mechanism
    fprops = ("C13", "C12")
    SIGS = [[], [(1, "main/1")], [(3, "main/1"), (BN254_R - 1, "main/2"), (0, "f_1_g/onex")], [(2, "a/1"), (2, "a/1")]]

    def configs(self, tier):
        return [dict(idx=i) for i in range(len(self.SIGS))]

    def setup(self, c, cfg):
        m = self.mod(c)
        return m.Sig.__str__, (m.Sig(list(self.SIGS[cfg["idx"]])),), {}

    def post(self, c, r, s):
        want = self.SIGS[c.cfg["idx"]]
        ok = isinstance(r, str)
        toks = r.split() if ok else []
        back = [(int(toks[i]), toks[i + 1]) for i in range(0, len(toks) - 1, 2)] if ok and len(toks) % 2 == 0 and all(
            t.lstrip("-").isdigit() for t in toks[0::2]) else None
        return {"V.is_text": ok, "V.parses_back_to_the_same_pairs": back == want, "F.operand_unchanged": list(s.sig) == want}


def _sig_replay(self, ob, cfg):
    if cfg.get("shape") != "concrete":
        return dict(confirmed=False, note="arbitrary-sequence configuration: no concrete operands to replay")
    from .qaptools_c import _qap_replay
    return _qap_replay(self, ob, cfg, kind="qap")


_SigOp.native_replay = _sig_replay
SigStr.native_replay = lambda self, ob, cfg: __import__("contracts.qaptools_c", fromlist=["_qap_replay"])._qap_replay(self, ob, cfg, kind="qap")

for _op in ("__add__", "__sub__", "__mul__", "__neg__"):
    register(type("Sig" + _op.strip("_").title(), (_SigOp,), dict(name="%s:Sig.%s" % (QAP, _op), op=_op)))


@register
class FieldInverseQap(_FieldInverse):
    name = QAP + ":fieldinverse"
    module = QAP


@register
class ConstsQap(_Backend):
    name = QAP + ":get_modulus"
    module = QAP
    probe = True

    def configs(self, tier):
        return [dict()]

    def setup(self, c, cfg):
        m = self.mod(c)
        return (lambda: (m.zero(), m.zero(), m.get_modulus())), (), {}

    def post(self, c, r):
        z1, z2, p = r
        return {
            "V.zero_empty": isinstance(z1.sig, list) and z1.sig == [],
            "F.fresh_objects": z1 is not z2 and z1.sig is not z2.sig,
            "V.modulus_is_scalar_field_order": p == BN254_R,
            "V.modulus_prime(miller_rabin_64)": miller_rabin(p),
        }


# ---------------------------------------------------------------------------
# pysnark.nobackend: the inert backend (not proof-producing: C13's algebra clauses do not apply to it).  What other
# code relies on: every operation answers with a fresh inert object, nothing is recorded anywhere, operands untouched.
# ---------------------------------------------------------------------------
NOBACKEND = "pysnark.nobackend"


class _NoBackend(_Backend):
    module = NOBACKEND
    fn = None
    nargs = 0

    def configs(self, tier):
        return [dict()]

    def setup(self, c, cfg):
        m = self.mod(c)
        self._objs = [m.NoneObject(), m.NoneObject()]
        self._dicts = [dict(vars(o)) for o in self._objs]
        f = getattr(m.NoneObject, self.fn) if self.fn.startswith("__") else getattr(m, self.fn)
        if self.fn.startswith("__"):
            args = tuple(self._objs[:1 if self.fn == "__neg__" else 2])
        elif self.fn == "add_constraint":
            args = (self._objs[0], self._objs[1], m.NoneObject())
        elif self.fn in ("privval", "pubval", "fieldinverse"):
            args = (SymInt(z3.Int("s_v")),)
        else:
            args = ()
        return f, args, {}

    def post(self, c, r, *a):
        m = self.mod(c)
        d = {"F.operands_untouched": all(dict(vars(o)) == d0 for o, d0 in zip(self._objs, self._dicts))}
        if self.fn in ("add_constraint", "prove"):
            d["V.returns_nothing"] = r is None
        elif self.fn == "get_modulus":
            d["V.plain_int_modulus"] = type(r) is int and r > 1
        elif self.fn == "fieldinverse":
            d["V.plain_int"] = type(r) is int
        else:
            d["V.fresh_inert_object"] = isinstance(r, m.NoneObject) and all(r is not o for o in self._objs) and not vars(r)
        return d


for _fn in ("__add__", "__sub__", "__mul__", "__neg__", "privval", "pubval", "zero", "one", "fieldinverse", "get_modulus", "add_constraint", "prove"):
    register(type("NoBackend_" + _fn.strip("_"), (_NoBackend,),
                  dict(name="%s:%s%s" % (NOBACKEND, "NoneObject." if _fn.startswith("__") else "", _fn), fn=_fn,
                       __doc__="nobackend.%s: inert" % _fn)))


# ---------------------------------------------------------------------------
# pysnark.libsnark.backend: the primitives are one-line uses of the C++ binding, which is absent here.  Verified at
# CALL level against an ASSUMED contract of the binding (GLib below): which protoboard operations happen, in which
# order, on which objects.  The algebra of libsnark.LinearCombination itself is C++ and out of reach.
# ---------------------------------------------------------------------------
LIBSNARK = "pysnark.libsnark.backend"


class GLibVar:
    def __init__(self):
        self.pb = None
        self.index = None

    def allocate(self, pb):
        self.pb = pb
        pb.vars.append(self)
        self.index = len(pb.vars)


class GLibLC:
    def __init__(self, x=None):
        # LinearCombination(): empty; LinearCombination(int): constant; LinearCombination(variable): that variable
        self.terms = {} if x is None else ({0: x} if isinstance(x, int) else {x: 1})


class GLibPb:
    def __init__(self):
        self.vars, self.public, self.values, self.constraints, self.calls = [], [], {}, [], []

    def setval(self, v, val):
        self.calls.append(("setval", v))
        self.values[v] = val

    def setpublic(self, v):
        self.calls.append(("setpublic", v))
        self.public.append(v)

    def add_r1cs_constraint(self, con):
        self.constraints.append(con)


def _lib_world(w):
    _stub_world(w)
    lib = types.ModuleType("libsnark.alt_bn128")
    lib.ProtoboardPub = GLibPb
    lib.PbVariable = GLibVar
    lib.LinearCombination = GLibLC
    lib.R1csConstraint = lambda a, b, c_: ("r1cs", a, b, c_)
    lib.fieldinverse = lambda v: ("binding.fieldinverse", v)
    lib.get_modulus = lambda: BN254_R
    top = types.ModuleType("libsnark")
    top.alt_bn128 = lib
    w.module_overrides["libsnark"] = top
    w.module_overrides["libsnark.alt_bn128"] = lib


class _Libsnark(_Backend):
    module = LIBSNARK
    fn = None

    def world_setup(self, w):
        _lib_world(w)

    def configs(self, tier):
        return [dict(history=h) for h in (0, 2)]

    def setup(self, c, cfg):
        m = self.mod(c)
        for i in range(cfg["history"]):          # an arbitrary allocation history before the call
            (m.privval if i % 2 else m.pubval)(SymInt(z3.Int("s_h%d" % i)))
        pb = m.pb
        self._before = (list(pb.vars), list(pb.public), dict(pb.values), list(pb.constraints))
        self._ncalls = len(pb.calls)
        f = getattr(m, self.fn)
        if self.fn in ("privval", "pubval", "fieldinverse"):
            self._v = SymInt(z3.Int("s_v"))
            return f, (self._v,), {}
        if self.fn == "add_constraint":
            self._abc = (GLibLC(), GLibLC(1), GLibLC())
            return f, self._abc, {}
        return f, (), {}

    def post(self, c, r, *a):
        m = self.mod(c)
        pb = m.pb
        vars0, pub0, vals0, cons0 = self._before
        d = {}
        if self.fn in ("privval", "pubval"):
            new = pb.vars[len(vars0):]
            d["V.one_variable_allocated_on_the_module_protoboard"] = len(new) == 1 and pb.vars[:len(vars0)] == vars0 and new[0].pb is pb
            if len(new) == 1:
                v = new[0]
                d["V.value_set"] = v in pb.values and pb.values[v] is self._v
                d["V.public_flag"] = (v in pb.public) == (self.fn == "pubval") and pb.public[:len(pub0)] == pub0
                d["V.allocated_before_use"] = all(v.index is not None for _k, x in pb.calls[self._ncalls:] for v in [x])
                d["V.returns_that_variable"] = isinstance(r, GLibLC) and list(r.terms.items()) == [(v, 1)]
            d["F.earlier_values_untouched"] = all(pb.values.get(k) is x for k, x in vals0.items())
            d["F.no_constraint_added"] = pb.constraints == cons0
        elif self.fn == "zero":
            d["V.empty"] = isinstance(r, GLibLC) and r.terms == {}
            d["F.protoboard_untouched"] = (pb.vars, pb.public, pb.constraints) == (vars0, pub0, cons0)
        elif self.fn == "one":
            d["V.constant_one"] = isinstance(r, GLibLC) and r.terms == {0: 1}
            d["F.protoboard_untouched"] = (pb.vars, pb.public, pb.constraints) == (vars0, pub0, cons0)
        elif self.fn == "add_constraint":
            new = pb.constraints[len(cons0):]
            A, B, C = self._abc
            d["V.exactly_this_triple_in_order"] = len(new) == 1 and new[0][0] == "r1cs" and new[0][1] is A and new[0][2] is B and new[0][3] is C
            d["F.no_variable_allocated"] = pb.vars == vars0 and pb.public == pub0
        elif self.fn == "fieldinverse":
            d["V.delegates_to_the_binding"] = r == ("binding.fieldinverse", self._v)
        elif self.fn == "get_modulus":
            d["V.delegates_to_the_binding"] = r == BN254_R
        return d


for _fn in ("privval", "pubval", "zero", "one", "add_constraint", "fieldinverse", "get_modulus"):
    register(type("Libsnark_" + _fn, (_Libsnark,), dict(name="%s:%s" % (LIBSNARK, _fn), fn=_fn,
                                                        __doc__="libsnark backend %s against the assumed binding contract" % _fn)))


class _AddConstraint(_Backend):
    """add_constraint(v, w, y) of a recording backend: every call appends exactly this triple -- also when an earlier
    constraint mentions the very same variables (with other coefficients), or is the very same constraint again."""
    assigns = ("pysnark.*:constraints",)

    def configs(self, tier):
        # rows: over variables; over the constant wire only (0*0 = c is how a false relation between constants is
        # recorded: dropping it makes the system satisfiable); over nothing at all
        return [dict(earlier=e) for e in ("none", "same_variables", "identical")] + \
               [dict(earlier="none", row=r) for r in ("constants", "zero_times_zero_is_constant", "empty")]

    def setup(self, c, cfg):
        m = self.mod(c)
        LC = m.LinearCombination
        S = lambda nm: SymInt(z3.Int("s_" + nm))
        row = cfg.get("row", "variables")
        if row == "variables":
            mk = lambda tag: (LC({1: S(tag + "a"), -1: S(tag + "b")}), LC({-1: S(tag + "c")}), LC({0: S(tag + "d"), 1: S(tag + "e")}))
        elif row == "constants":
            mk = lambda tag: (LC({0: S(tag + "a")}), LC({0: S(tag + "b")}), LC({0: S(tag + "c")}))
        elif row == "zero_times_zero_is_constant":
            mk = lambda tag: (LC({}), LC({}), LC({0: S(tag + "c")}))
        else:
            mk = lambda tag: (LC({}), LC({}), LC({}))
        m.constraints[:] = []
        self._first = None
        if cfg["earlier"] != "none":
            self._first = mk("p")
            m.add_constraint(*self._first)
        self._args = self._first if cfg["earlier"] == "identical" else mk("q")
        self._n0 = len(m.constraints)
        return m.add_constraint, tuple(self._args), {}

    def post(self, c, r, v, w, y):
        m = self.mod(c)
        cs = m.constraints
        ok = len(cs) == self._n0 + 1 and len(cs[-1]) == 3
        d = {"V.appends_one_constraint": ok, "V.earlier_constraint_recorded": self._n0 == (0 if c.cfg["earlier"] == "none" else 1)}
        if ok:
            d["V.appended_is_this_triple"] = cs[-1][0] is v and cs[-1][1] is w and cs[-1][2] is y
            if self._first is not None:
                d["F.earlier_constraint_untouched"] = all(a is b for a, b in zip(cs[0], self._first))
        return d


@register
class AddConstraintSnarkjs(_AddConstraint):
    name = SNARKJS + ":add_constraint"


@register
class AddConstraintZkif(_AddConstraint):
    name = ZKIF + ":add_constraint"
    module = ZKIF
