"""Contracts for pysnark/boolean.py."""
import z3
from .common import *
from pyvc.sym import bit


def is01(t):
    return z3.And(t >= 0, t <= 1)


@register
class BoolInit(Contract):
    """LinCombBool(lc, constrain=True): declares lc boolean; 1 constraint lc*(1-lc)=0."""
    name = "pysnark.boolean:LinCombBool.__init__"
    sprops = ("C02", "C03")
    type_errors = (RuntimeError,)

    def configs(self, tier):
        return [dict(mode=m, constrain=k) for m in MODES for k in (True, False)]

    def setup(self, c, cfg):
        apply_mode(c, cfg["mode"])
        x = c.operand("x")
        return c.LinCombBool, (x, cfg["constrain"]), {}

    def _args(self, a):
        # called as LinCombBool(lc, constrain) -> __init__(self, lc, constrain)
        if len(a) == 3:
            return a[1], a[2]
        if len(a) == 2 and not isinstance(a[1], bool):
            return a[1], True
        if len(a) == 2:
            return a[0], a[1]
        return a[0], True

    def raises(self, c, *a, **kw):
        lc, constrain = self._args(a)
        if not isinstance(lc, c.LinComb):
            return [(RuntimeError, True)]
        return [(ValueError, Not(is01(c.v(lc))))]

    def result(self, c, *a, **kw):
        self_, lc = a[0], a[1]
        self_.lc = lc
        return None

    def post(self, c, r, *a, **kw):
        lc, constrain = self._args(a)
        constrain = kw.get("constrain", constrain)
        obj = r if r is not None else a[0]
        d = {"V.wraps": obj.lc is lc, "V.inv": c.inv(obj)}       # the boolean reports the value its wire expression has
        if constrain:
            d["S.bool"] = Implies(on(c), is01(c.eva(lc)))
            d["canary.S.bool"] = Implies(on(c), c.eva(lc) == 0)
        return d

    def counts(self, c, *a, **kw):
        lc, constrain = self._args(a)
        constrain = kw.get("constrain", constrain)
        return n_ac(c) if constrain else (0, 0, 0)


class _ValBool(Contract):
    alloc = None
    sprops = ("C02", "C03")
    witness_args = (0,)

    def configs(self, tier):
        # ... and declared from a Python bool (True / False are what comparisons of plain values give)
        return [dict(mode=m) for m in MODES] + [dict(mode=m, arg=a) for m in ("plain", "g0") for a in ("True", "False")]

    def setup(self, c, cfg):
        apply_mode(c, cfg["mode"])
        v = {"True": True, "False": False}[cfg["arg"]] if "arg" in cfg else SymInt(z3.Int("s_v"))
        return getattr(c.w.modules["pysnark.boolean"], self.alloc), (v,), {}

    def raises(self, c, val):
        return [(ValueError, Not(is01(term(val))))]

    def result(self, c, val):
        return c.fresh_bool_lc(lift(term(val)), "bit")

    def post(self, c, r, val):
        return {
            "V.type": isinstance(r, c.LinCombBool),
            "V.value": Eq(c.v(r), val),
            "V.inv": c.inv(r),
            "S.bool": Implies(on(c), is01(c.eva(r))),
        }


@register
class PrivValBool(_ValBool):
    name = "pysnark.boolean:PrivValBool"
    alloc = "PrivValBool"

    def counts(self, c, val):
        return n_pvb(c)


@register
class PubValBool(_ValBool):
    name = "pysnark.boolean:PubValBool"
    alloc = "PubValBool"

    def counts(self, c, val):
        a = n_ac(c)
        return (1, a[1], a[2])


# ---------------------------------------------------------------------------
# boolean operators
# ---------------------------------------------------------------------------

def _bool_operand(c, kind, name):
    if kind == "b":
        return c.operand_bool(name)
    if kind == "s":                       # plain LinComb holding 0/1: goes through _ensurebool (1 constraint)
        x = c.operand(name)
        cur().assume(is01(term(x.value)))
        return x
    if kind == "k1":
        return 1
    if kind == "k0":
        return 0
    if kind == "k":                       # any plain integer: outside {0, 1} it is refused where a boolean is required
        return c.public_int(name)
    raise ValueError(kind)


def _kv(c, y):
    """comparison / conversion operand as a number (a plain int counts by its VALUE here, not by its truth value)"""
    return c.v(y) if not isinstance(y, int) else term(y)


def _bv(c, y):
    return c.v(y) if not isinstance(y, int) else term(1 if y else 0)


def _ba(c, y):
    return c.eva(y) if not isinstance(y, int) else term(1 if y else 0)


class _BoolBin(Contract):
    table = None       # function on 0/1 terms
    modules = ("pysnark.runtime", "pysnark.boolean")

    def configs(self, tier):
        return [dict(mode=m, kind=k) for m in MODES for k in ("b", "s", "k1", "k0")]

    def setup(self, c, cfg):
        apply_mode(c, cfg["mode"])
        return getattr(c.LinCombBool, self.name.rsplit(".", 1)[1]), (c.operand_bool("x"), _bool_operand(c, cfg["kind"], "y")), {}

    def raises(self, c, x, y):
        if isinstance(y, c.LinComb):
            return [(ValueError, Not(is01(c.v(y))))]
        return []

    def result(self, c, x, y):
        return c.fresh_bool_lc(lift(self.table(c.v(x), _bv(c, y))), "bop")

    def post(self, c, r, x, y):
        xa, ya = c.eva(x), _ba(c, y)
        hyp = And(is01(xa), is01(ya))
        d = {
            "V.type": isinstance(r, c.LinCombBool),
            "V.value": Implies(is01(c.v(x)), Eq(c.v(r), self.table(c.v(x), _bv(c, y)))),
            "V.inv": c.inv(r),
            "S.table": Implies(hyp, c.eva(r) == self.table(xa, ya)),
            "S.bool": Implies(hyp, is01(c.eva(r))),
        }
        if isinstance(y, c.LinComb):
            # a RAW secret operand is made boolean by the operation itself (its booleanity constraint): the result,
            # typed boolean, is 0 or 1 whatever the prover puts on that operand's wire
            d["S.raw_operand_forced_boolean"] = Implies(And(on(c), is01(xa)), is01(c.eva(r)))
        return d

    def counts(self, c, x, y):
        if isinstance(y, int):
            return (0, 0, 0)
        n = (0, 1, 1)
        if isinstance(y, c.LinComb):
            n = addc(n, n_ac(c))
        return n


@register
class BAnd(_BoolBin):
    name = "pysnark.boolean:LinCombBool.__and__"
    table = staticmethod(lambda a, b: z3.If(z3.And(a == 1, b == 1), Z(1), Z(0)))


@register
class BOr(_BoolBin):
    name = "pysnark.boolean:LinCombBool.__or__"
    table = staticmethod(lambda a, b: z3.If(z3.Or(a == 1, b == 1), Z(1), Z(0)))


@register
class BXor(_BoolBin):
    name = "pysnark.boolean:LinCombBool.__xor__"
    table = staticmethod(lambda a, b: z3.If(a != b, Z(1), Z(0)))


@register
class BNot(Contract):
    name = "pysnark.boolean:LinCombBool.__invert__"

    def configs(self, tier):
        return [dict(mode=m) for m in ("plain", "g1", "g0")]

    def setup(self, c, cfg):
        apply_mode(c, cfg["mode"])
        return c.LinCombBool.__invert__, (c.operand_bool("x"),), {}

    def use_stub(self, c, x):
        return False

    def raises(self, c, x):
        return [(ValueError, Not(is01(c.v(x))))]

    def post(self, c, r, x):
        return {
            "V.type": isinstance(r, c.LinCombBool),
            "V.value": Eq(c.v(r), 1 - c.v(x)),
            "V.inv": c.inv(r),
            "S.not": c.eva(r) == (1 - c.eva(x)) % c.p,
        }

    def counts(self, c, x):
        return (0, 0, 0)


@register
class EnsureBool(Contract):
    name = "pysnark.boolean:LinCombBool._ensurebool"

    def configs(self, tier):
        return [dict(mode=m, kind=k) for m in ("plain", "ie", "g0") for k in ("b", "s", "k1", "k")]

    def setup(self, c, cfg):
        apply_mode(c, cfg["mode"])
        y = _bool_operand(c, cfg["kind"], "y") if cfg["kind"] != "s" else c.operand("y")
        return c.LinCombBool._ensurebool, (y,), {}

    def use_stub(self, c, *a):
        return False

    def raises(self, c, *a):
        y = a[-1]
        if isinstance(y, c.LinCombBool):
            return []
        if isinstance(y, c.LinComb):
            return [(ValueError, Not(is01(c.v(y))))]
        return [(ValueError, Not(is01(term(y))))]

    def post(self, c, r, *a):
        y = a[-1]
        d = {"V.type": isinstance(r, c.LinCombBool), "V.value": Eq(c.v(r), _bv(c, y) if not isinstance(y, int) else term(y))}
        if isinstance(y, c.LinComb):
            d["S.bool"] = Implies(on(c), is01(c.eva(r)))
        return d

    def counts(self, c, *a):
        y = a[-1]
        return (0, 0, 0) if isinstance(y, c.LinCombBool) else n_ac(c)


# ---------------------------------------------------------------------------
# comparisons, assertions and the remaining arithmetic of LinCombBool
# ---------------------------------------------------------------------------

class _BoolCmp(Contract):
    """b <op> y for a LinCombBool b: order of the 0/1 values; y is brought to a boolean first."""
    rel = None
    modules = ("pysnark.runtime", "pysnark.boolean")

    def configs(self, tier):
        return [dict(mode=m, kind=k, bits=2) for m in ("plain", "g1", "g0") for k in ("b", "s", "k1", "k0", "k")]

    def setup(self, c, cfg):
        apply_mode(c, cfg["mode"], bitlength=cfg["bits"])
        return getattr(c.LinCombBool, self.name.rsplit(".", 1)[1]), (c.operand_bool("x"), _bool_operand(c, cfg["kind"], "y")), {}

    def use_stub(self, c, *a):
        return False

    def raises(self, c, x, y):
        # a plain integer other than 0 and 1 is not a boolean: comparing with it is refused, never answered
        return [(ValueError, Not(is01(_kv(c, y))))] if not isinstance(y, c.LinCombBool) else []

    def post(self, c, r, x, y):
        return {"V.type": isinstance(r, c.LinCombBool),
                "V.value": Implies(And(isg(c), is01(c.v(x))), Eq(c.v(r), If(self.rel(c.v(x), _kv(c, y)), 1, 0))),
                "V.inv": c.inv(r)}


for _n, _rel in (("__lt__", lambda a, b: a < b), ("__le__", lambda a, b: a <= b), ("__gt__", lambda a, b: a > b),
                 ("__ge__", lambda a, b: a >= b), ("__eq__", lambda a, b: a == b), ("__ne__", lambda a, b: a != b)):
    register(type("BoolCmp" + _n.strip("_"), (_BoolCmp,), dict(name="pysnark.boolean:LinCombBool." + _n, rel=staticmethod(_rel))))


class _BoolAssert(Contract):
    rel = None
    sprops = ("C03",)
    vprops = ("C03",)
    covers_normal = False      # b.assert_lt(0) and b.assert_gt(1) can never hold
    modules = ("pysnark.runtime", "pysnark.boolean")

    def configs(self, tier):
        return [dict(mode=m, kind=k, bits=2) for m in ("plain", "ie") for k in ("b", "k1", "k0", "k")]

    def setup(self, c, cfg):
        apply_mode(c, cfg["mode"], bitlength=cfg["bits"])
        return getattr(c.LinCombBool, self.name.rsplit(".", 1)[1]), (c.operand_bool("x"), _bool_operand(c, cfg["kind"], "y")), {}

    def use_stub(self, c, *a, **k):
        return False

    def raises(self, c, x, y, err=None):
        out = [(AssertionError, And(Not(ie(c)), is01(_kv(c, y)), Not(self.rel(c.v(x), _kv(c, y)))))]
        if isinstance(y, int):
            out.append((ValueError, Not(is01(term(y)))))
        return out

    def post(self, c, r, x, y, err=None):
        tied = And(c.tied(x), *([c.tied(y)] if not isinstance(y, int) else []))
        return {"E.enforced": Implies(And(on(c), tied), self.rel(c.v(x), _kv(c, y)))}


for _n, _rel in (("assert_lt", lambda a, b: a < b), ("assert_le", lambda a, b: a <= b), ("assert_gt", lambda a, b: a > b),
                 ("assert_ge", lambda a, b: a >= b), ("assert_eq", lambda a, b: a == b), ("assert_ne", lambda a, b: a != b)):
    register(type("BoolAssert" + _n, (_BoolAssert,), dict(name="pysnark.boolean:LinCombBool." + _n, rel=staticmethod(_rel))))


@register
class BoolPow(Contract):
    """b ** k for a LinCombBool: Python's 0/1 power (note 0 ** 0 == 1)."""
    name = "pysnark.boolean:LinCombBool.__pow__"
    modules = ("pysnark.runtime", "pysnark.boolean")

    def configs(self, tier):
        return [dict(mode="plain", k=k) for k in (0, 1, 3)]

    def setup(self, c, cfg):
        apply_mode(c, cfg["mode"])
        return c.LinCombBool.__pow__, (c.operand_bool("x"), cfg["k"]), {}

    def use_stub(self, c, *a, **k):
        return False

    def post(self, c, r, x, k, mod=None):
        want = z3.IntVal(1) if k == 0 else c.v(x)
        return {"V.python": Eq(c.v(r), want), "V.inv": c.inv(r)}


class _BoolArith(Contract):
    """b + y, b - y, b * y, y - b, -b: ordinary arithmetic on the 0/1 value (returns a LinComb)."""
    spec = None
    arity = 2
    modules = ("pysnark.runtime", "pysnark.boolean")

    def configs(self, tier):
        return [dict(mode=m, kind=k) for m in ("plain", "g0") for k in (("s", "k") if self.arity == 2 else ("none",))]

    def setup(self, c, cfg):
        apply_mode(c, cfg["mode"])
        fn = getattr(c.LinCombBool, self.name.rsplit(".", 1)[1])
        if self.arity == 1:
            return fn, (c.operand_bool("x"),), {}
        y = c.operand("y") if cfg["kind"] == "s" else c.public_int("k")
        return fn, (c.operand_bool("x"), y), {}

    def use_stub(self, c, *a):
        return False

    def post(self, c, r, x, y=None):
        yv = None if y is None else (c.v(y) if not isinstance(y, int) else term(y))
        return {"V.type": isinstance(r, c.LinComb), "V.value": Eq(c.v(r), self.spec(c.v(x), yv)), "V.inv": c.inv(r)}


for _n, _sp, _ar in (("__add__", lambda a, b: a + b, 2), ("__sub__", lambda a, b: a - b, 2), ("__rsub__", lambda a, b: b - a, 2),
                     ("__mul__", lambda a, b: imul(a, b), 2), ("__neg__", lambda a, b: -a, 1)):
    register(type("BoolArith" + _n.strip("_"), (_BoolArith,), dict(name="pysnark.boolean:LinCombBool." + _n, spec=staticmethod(_sp), arity=_ar)))


# ---------------------------------------------------------------------------
# operators LinCombBool declines (so that Python raises TypeError): a change that makes one of them answer must
# answer with the plain-Python value of the expression on 0/1
# ---------------------------------------------------------------------------
from pyvc.sym import idivmod as _idivmod, shr as _shr


class _BoolDeclined(Contract):
    spec = None
    vprops = ("C05",)
    sprops = eprops = cprops = tprops = ()
    raises_unspecified = True
    guard_relevant = False
    modules = ("pysnark.runtime", "pysnark.boolean")

    def configs(self, tier):
        return [dict(mode="plain", kind=k) for k in ("s", "k")]

    def setup(self, c, cfg):
        apply_mode(c, cfg["mode"], bitlength=4)
        fn = getattr(c.LinCombBool, self.name.rsplit(".", 1)[1])
        y = c.operand("y") if cfg["kind"] == "s" else c.public_int("k")
        return fn, (c.operand_bool("x"), y), {}

    def use_stub(self, c, *a):
        return False

    def post(self, c, r, x, y):
        if r is NotImplemented:
            return {"V.declined": True}
        yv = c.v(y) if not isinstance(y, int) else term(y)
        want = self.spec(c.v(x), yv)
        if isinstance(r, tuple):
            return {"V.value": And(*[Eq(c.v(a), w) for a, w in zip(r, want)]) if len(r) == len(want) else False}
        if isinstance(want, tuple):
            return {"V.value": False}
        return {"V.value": Eq(c.v(r), want), "V.inv": c.inv(r)}


for _n, _sp in (("__truediv__", lambda a, b: _idivmod(a, b)[0]), ("__floordiv__", lambda a, b: _idivmod(a, b)[0]),
                ("__mod__", lambda a, b: _idivmod(a, b)[1]), ("__divmod__", lambda a, b: _idivmod(a, b)),
                ("__rtruediv__", lambda a, b: _idivmod(b, a)[0])):
    register(type("BoolDeclined" + _n.strip("_"), (_BoolDeclined,), dict(name="pysnark.boolean:LinCombBool." + _n, spec=staticmethod(_sp),
                                                                        __doc__="LinCombBool.%s declines (TypeError at the operator)" % _n)))


class _BoolDeclinedShift(_BoolDeclined):
    def configs(self, tier):
        return [dict(mode="plain", k=k) for k in (0, 1, 3)]

    def setup(self, c, cfg):
        apply_mode(c, cfg["mode"], bitlength=4)
        fn = getattr(c.LinCombBool, self.name.rsplit(".", 1)[1])
        return fn, (c.operand_bool("x"), cfg["k"]), {}


register(type("BoolDeclinedlshift", (_BoolDeclinedShift,), dict(name="pysnark.boolean:LinCombBool.__lshift__", spec=staticmethod(lambda a, k: a * (1 << k.as_long())))))
register(type("BoolDeclinedrshift", (_BoolDeclinedShift,), dict(name="pysnark.boolean:LinCombBool.__rshift__", spec=staticmethod(lambda a, k: _shr(a, k.as_long())))))


@register
class BoolPos(Contract):
    """+b is b"""
    name = "pysnark.boolean:LinCombBool.__pos__"
    vprops = ("C05",)
    sprops = eprops = cprops = tprops = ()
    guard_relevant = False
    modules = ("pysnark.runtime", "pysnark.boolean")

    def configs(self, tier):
        return [dict(mode="plain")]

    def setup(self, c, cfg):
        apply_mode(c, cfg["mode"])
        return c.LinCombBool.__pos__, (c.operand_bool("x"),), {}

    def use_stub(self, c, *a):
        return False

    def post(self, c, r, x):
        return {"V.same": r is x}


@register
class BoolInt(Contract):
    """int(b) is refused (a secret has no plain value)"""
    name = "pysnark.boolean:LinCombBool.__int__"
    vprops = ("C05",)
    sprops = eprops = cprops = tprops = ()
    guard_relevant = False
    covers_normal = False
    modules = ("pysnark.runtime", "pysnark.boolean")

    def configs(self, tier):
        return [dict(mode="plain", raises_only=True)]

    def setup(self, c, cfg):
        apply_mode(c, cfg["mode"])
        return c.LinCombBool.__int__, (c.operand_bool("x"),), {}

    def use_stub(self, c, *a):
        return False

    def raises(self, c, x):
        return [(NotImplementedError, True)]

    def post(self, c, r, x):
        return {"V.never_returns": False}


@register
class BoolIfElse(Contract):
    """b.if_else(t, f) = f + b*(t - f): the selected value; on the wires, exactly that affine selection"""
    name = "pysnark.boolean:LinCombBool.if_else"
    vprops = ("C05",)
    sprops = ("C02",)
    eprops = cprops = ()
    tprops = ("C06",)
    modules = ("pysnark.runtime", "pysnark.boolean")

    def configs(self, tier):
        return [dict(mode=m, kind=k) for m in ("plain", "g1", "g0") for k in ("ss", "sk", "ks")]

    def setup(self, c, cfg):
        apply_mode(c, cfg["mode"])
        mk = lambda ch, nm: c.operand(nm) if ch == "s" else c.public_int(nm)
        return c.LinCombBool.if_else, (c.operand_bool("b"), mk(cfg["kind"][0], "t"), mk(cfg["kind"][1], "f")), {}

    def use_stub(self, c, *a):
        return False

    def post(self, c, r, b, t, f):
        val = lambda o: term(o) if isinstance(o, int) else c.v(o)
        adv = lambda o: term(o) % c.p if isinstance(o, int) else c.eva(o)
        ok = hasattr(r, "lc")
        d = {"V.type": ok}
        if ok:
            d["V.value"] = Eq(c.v(r), If(c.v(b) == 1, val(t), val(f)))
            d["V.inv"] = c.inv(r)
            d["S.select"] = Implies(And(on(c), is01(c.eva(b))), c.eva(r) == If(c.eva(b) == 1, adv(t), adv(f)))
        return d


@register
class BoolVal(Contract):
    """b.val(): the plain 0/1 value, one public output tied to the wire"""
    name = "pysnark.boolean:LinCombBool.val"
    vprops = ("C05",)
    sprops = ("C02",)
    eprops = cprops = ()
    tprops = ("C06",)
    modules = ("pysnark.runtime", "pysnark.boolean")

    def configs(self, tier):
        return [dict(mode=m) for m in ("plain", "g1")]

    def setup(self, c, cfg):
        apply_mode(c, cfg["mode"])
        return c.LinCombBool.val, (c.operand_bool("b"),), {}

    def use_stub(self, c, *a):
        return False

    def post(self, c, r, b):
        pubs = [e.var for e in c.g.trace[getattr(c, "call_start", 0):] if hasattr(e, "var") and e.var.kind == "pub"]
        d = {"V.value": isinstance(r, int) and formula(Eq(r, c.v(b))), "T.one_public_output": len(pubs) == 1}
        if len(pubs) == 1:
            d["S.tied"] = Implies(on(c), pubs[0].a == c.eva(b))
        return d
