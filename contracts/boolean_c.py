"""Contracts for pysnark/boolean.py."""
import z3
from .common import *
from pyvc.sym import bit


def is01(t):
    return z3.And(t >= 0, t <= 1)


@register
class BoolInit(Contract):
    """LinCombBool(lc, constrain=True): declares lc boolean; 1 constraint lc*(1-lc)=0."""
    name = "pysnark.boolean:LinCombBool.__init__"
    type_errors = (RuntimeError,)

    def configs(self, tier):
        return [dict(mode=m, constrain=k) for m in MODES for k in (True, False)]

    def setup(self, c, cfg):
        apply_mode(c, cfg["mode"])
        x = c.operand("x")
        return c.LinCombBool, (x, cfg["constrain"]), {}

    def _args(self, a):
        # called as LinCombBool(lc, constrain) -> __init__(self, lc, constrain)
        if len(a) == 3:
            return a[1], a[2]
        if len(a) == 2 and not isinstance(a[1], bool):
            return a[1], True
        if len(a) == 2:
            return a[0], a[1]
        return a[0], True

    def raises(self, c, *a, **kw):
        lc, constrain = self._args(a)
        if not isinstance(lc, c.LinComb):
            return [(RuntimeError, True)]
        return [(ValueError, Not(is01(c.v(lc))))]

    def result(self, c, *a, **kw):
        self_, lc = a[0], a[1]
        self_.lc = lc
        return None

    def post(self, c, r, *a, **kw):
        lc, constrain = self._args(a)
        constrain = kw.get("constrain", constrain)
        obj = r if r is not None else a[0]
        d = {"V.wraps": obj.lc is lc}
        if constrain:
            d["S.bool"] = Implies(on(c), is01(c.eva(lc)))
            d["canary.S.bool"] = Implies(on(c), c.eva(lc) == 0)
        return d

    def counts(self, c, *a, **kw):
        lc, constrain = self._args(a)
        constrain = kw.get("constrain", constrain)
        return n_ac(c) if constrain else (0, 0, 0)


class _ValBool(Contract):
    alloc = None
    witness_args = (0,)

    def configs(self, tier):
        return [dict(mode=m) for m in MODES]

    def setup(self, c, cfg):
        apply_mode(c, cfg["mode"])
        v = SymInt(z3.Int("s_v"))
        return getattr(c.w.modules["pysnark.boolean"], self.alloc), (v,), {}

    def raises(self, c, val):
        return [(ValueError, Not(is01(term(val))))]

    def result(self, c, val):
        return c.fresh_bool_lc(lift(term(val)), "bit")

    def post(self, c, r, val):
        return {
            "V.type": isinstance(r, c.LinCombBool),
            "V.value": Eq(c.v(r), val),
            "V.inv": c.inv(r),
            "S.bool": Implies(on(c), is01(c.eva(r))),
        }


@register
class PrivValBool(_ValBool):
    name = "pysnark.boolean:PrivValBool"
    alloc = "PrivValBool"

    def counts(self, c, val):
        return n_pvb(c)


@register
class PubValBool(_ValBool):
    name = "pysnark.boolean:PubValBool"
    alloc = "PubValBool"

    def counts(self, c, val):
        a = n_ac(c)
        return (1, a[1], a[2])
