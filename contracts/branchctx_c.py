"""Contracts for the block-structured oblivious control flow of pysnark/branching.py (C09).

Program schemas: small client programs over the real API with fully symbolic values and
conditions; the final variable values must equal those of the native-control-flow twin
(written here as a formula).  Complete in values and conditions, bounded in program shape."""
import z3
from .common import *
from .boolean_c import is01

MODS = ("pysnark.runtime", "pysnark.boolean", "pysnark.fixedpoint", "pysnark.branching")
CONDS = ("secret_bool", "secret_lc", "public_true")


def _cond(c, kind, name="c"):
    if kind == "secret_bool":
        return c.operand_bool(name)
    if kind == "secret_lc":
        x = c.operand(name)
        cur().assume(is01(term(x.value)))
        return x
    return 1


def _cv(c, cond):
    return c.v(cond) if not isinstance(cond, int) else term(cond)


def API(br):
    return {k: getattr(br, k) for k in ("BranchingValues", "_if", "_elif", "_else", "_endif", "_while", "_endwhile",
                                        "_breakif", "_range", "_endfor", "if_then_else")}


class _Schema(Contract):
    history_ok = False         # client programs with their own probes: an earlier run of the program is not a pre-state
    assigns = GUARD_STATE      # client programs enter and leave guarded regions; V.state_restored pins the final state
    modules = MODS
    probe = True
    cprops = ("C09",)
    sprops = eprops = ()
    vprops = ("C09",)
    tprops = ("C09",)
    fprops = ("C09", "C08")
    guard_relevant = False

    def use_stub(self, c, *a, **k):
        return False

    def configs(self, tier):
        return [dict(cond=k, bits=3) for k in CONDS]

    def br(self, c):
        return c.w.modules["pysnark.branching"]

    def post_exc(self, c, e, *a, **k):
        # C08: whatever makes a block construct fail (on the pinned tree every secret condition does, KF-22..24), the
        # exception leaves the guard, the error flag and the constant one as they were before the region
        return {"F.guard_state_restored": self.state_clean(c)}

    def state_clean(self, c):
        e, now = c.entry, c.now
        return And(now["guard"] is e["guard"], now["ONE"] is e["ONE"], formula(now["ie"]) == formula(e["ie"]))


@register
class SchemaIf(_Schema):
    """_if(c); x = x + a; _endif  -- y untouched."""
    name = "pysnark.branching:_if#if"

    def setup(self, c, cfg):
        apply_mode(c, "plain", bitlength=cfg["bits"])
        br = self.br(c)
        x0, a, y0, cond = c.operand("x0"), c.operand("a"), c.operand("y0"), _cond(c, cfg["cond"])
        self._ops = (x0, a, y0, cond)

        return c.client("""
def prog():
    _ = BranchingValues()
    _.x = x0
    _.y = y0
    if _if(cond):
        _.x = _.x + a
    _endif()
    return _
""", x0=x0, y0=y0, a=a, cond=cond, **API(br)), (), {}

    def post(self, c, r, *a_):
        x0, a, y0, cond = self._ops
        cv = _cv(c, cond)
        return {"V.x": Eq(c.v(r.x), If(cv == 1, c.v(x0) + c.v(a), c.v(x0))),
                "V.y_untouched": Eq(c.v(r.y), c.v(y0)),
                "V.inv": And(c.inv(r.x), c.inv(r.y)),
                "F.stack_empty": len(r.stack) == 0,
                "F.guard_state_restored": self.state_clean(c)}


@register
class SchemaIfElse(_Schema):
    """_if(c); x = x + a; _else; x = x - a; _endif"""
    name = "pysnark.branching:_if#ifelse"

    def setup(self, c, cfg):
        apply_mode(c, "plain", bitlength=cfg["bits"])
        br = self.br(c)
        x0, a, cond = c.operand("x0"), c.operand("a"), _cond(c, cfg["cond"])
        self._ops = (x0, a, cond)

        return c.client("""
def prog():
    _ = BranchingValues()
    _.x = x0
    if _if(cond):
        _.x = _.x + a
    if _else():
        _.x = _.x - a
    _endif()
    return _
""", x0=x0, a=a, cond=cond, **API(br)), (), {}

    def post(self, c, r, *a_):
        x0, a, cond = self._ops
        cv = _cv(c, cond)
        return {"V.x": Eq(c.v(r.x), If(cv == 1, c.v(x0) + c.v(a), c.v(x0) - c.v(a))),
                "V.inv": c.inv(r.x), "F.stack_empty": len(r.stack) == 0, "F.guard_state_restored": self.state_clean(c)}


@register
class SchemaIfElifElse(_Schema):
    """_if(c1) .. _elif(lambda: c2) .. _else .. _endif, one variable defined in every branch"""
    name = "pysnark.branching:_if#ifelifelse"

    def setup(self, c, cfg):
        apply_mode(c, "plain", bitlength=cfg["bits"])
        br = self.br(c)
        a, b, d = c.operand("a"), c.operand("b"), c.operand("d")
        c1, c2 = _cond(c, cfg["cond"], "c1"), _cond(c, cfg["cond"], "c2")
        self._ops = (a, b, d, c1, c2)

        return c.client("""
def prog():
    _ = BranchingValues()
    if _if(c1):
        _.z = a
    if _elif(lambda: c2):
        _.z = b
    if _else():
        _.z = d
    _endif()
    return _
""", a=a, b=b, d=d, c1=c1, c2=c2, **API(br)), (), {}

    def post(self, c, r, *a_):
        a, b, d, c1, c2 = self._ops
        return {"V.z": Eq(c.v(r.z), If(_cv(c, c1) == 1, c.v(a), If(_cv(c, c2) == 1, c.v(b), c.v(d)))),
                "V.inv": c.inv(r.z), "F.stack_empty": len(r.stack) == 0, "F.guard_state_restored": self.state_clean(c)}


@register
class SchemaNested(_Schema):
    """nested _if inside _if: the inner body runs under the conjunction"""
    name = "pysnark.branching:_if#nested"

    def setup(self, c, cfg):
        apply_mode(c, "plain", bitlength=cfg["bits"])
        br = self.br(c)
        x0, a = c.operand("x0"), c.operand("a")
        c1, c2 = _cond(c, cfg["cond"], "c1"), _cond(c, cfg["cond"], "c2")
        self._ops = (x0, a, c1, c2)

        return c.client("""
def prog():
    _ = BranchingValues()
    _.x = x0
    if _if(c1):
        if _if(c2):
            _.x = _.x + a
        _endif()
    _endif()
    return _
""", x0=x0, a=a, c1=c1, c2=c2, **API(br)), (), {}

    def post(self, c, r, *a_):
        x0, a, c1, c2 = self._ops
        return {"V.x": Eq(c.v(r.x), If(And(_cv(c, c1) == 1, _cv(c, c2) == 1), c.v(x0) + c.v(a), c.v(x0))),
                "V.inv": c.inv(r.x), "F.stack_empty": len(r.stack) == 0, "F.guard_state_restored": self.state_clean(c)}


@register
class SchemaFor(_Schema):
    """for i in _range(stop, max=3): acc += i   with a public or a secret stop"""
    name = "pysnark.branching:_range#for"

    def configs(self, tier):
        return [dict(stop=k, bits=3) for k in ("public2", "public0", "secret")]

    def setup(self, c, cfg):
        apply_mode(c, "plain", bitlength=cfg["bits"])
        br = self.br(c)
        acc0 = c.operand("acc0")
        if cfg["stop"] == "secret":
            stop = c.operand("stop")
            cur().assume(And(term(stop.value) >= 0, term(stop.value) <= 3))
        else:
            stop = int(cfg["stop"][6:])
        self._ops = (acc0, stop)

        return c.client("""
def prog():
    _ = BranchingValues()
    _.acc = acc0
    for i in _range(stop, max=3):
        _.acc = _.acc + i
    _endfor()
    return _
""", acc0=acc0, stop=stop, **API(br)), (), {}

    def post(self, c, r, *a_):
        acc0, stop = self._ops
        sv = _cv(c, stop)
        want = c.v(acc0) + z3.Sum([If(sv > i, i, 0) for i in range(3)])
        return {"V.acc": Eq(c.v(r.acc), want), "V.inv": c.inv(r.acc),
                "F.stack_empty": len(r.stack) == 0, "F.guard_state_restored": self.state_clean(c)}


@register
class SchemaWhile(_Schema):
    """while-loop with a break condition, unrolled to a public maximum of 2 iterations"""
    name = "pysnark.branching:_while#while"

    def setup(self, c, cfg):
        apply_mode(c, "plain", bitlength=cfg["bits"])
        br = self.br(c)
        x0 = c.operand("x0")
        c1, c2 = _cond(c, cfg["cond"], "c1"), _cond(c, cfg["cond"], "c2")
        self._ops = (x0, c1, c2)

        return c.client("""
def prog():
    _ = BranchingValues()
    _.x = x0
    n = 0
    while n < 2 and _while(conds[n]):
        _.x = _.x + 1
        n += 1
    _endwhile()
    return _
""", x0=x0, conds=(c1, c2), **API(br)), (), {}

    def post(self, c, r, *a_):
        x0, c1, c2 = self._ops
        v1, v2 = _cv(c, c1) == 1, _cv(c, c2) == 1
        return {"V.x": Eq(c.v(r.x), c.v(x0) + If(v1, If(v2, 2, 1), 0)), "V.inv": c.inv(r.x),
                "F.stack_empty": len(r.stack) == 0, "F.guard_state_restored": self.state_clean(c)}


@register
class LazyIfThenElse(_Schema):
    """if_then_else(c, f, g) with lazily evaluated (callable) branches"""
    name = "pysnark.branching:if_then_else#lazy"
    probe = False

    def configs(self, tier):
        return [dict(cond=k, bits=3) for k in ("secret_bool", "public_true")]

    def setup(self, c, cfg):
        apply_mode(c, "plain", bitlength=cfg["bits"])
        t, f, cond = c.operand("t"), c.operand("f"), _cond(c, cfg["cond"])
        self._ops = (t, f, cond)
        self._calls = []
        return self.br(c).if_then_else, (cond, lambda: (self._calls.append("t"), t)[1], lambda: (self._calls.append("f"), f)[1]), {}

    def post(self, c, r, cond, tf, ff):
        t, f, cond = self._ops
        if callable(r):
            return {"V.branch_is_evaluated": False}
        d = {"V.branch_is_evaluated": True,
             "V.value": Eq(c.v(r), If(_cv(c, cond) == 1, c.v(t), c.v(f))), "V.inv": c.inv(r),
             "F.guard_state_restored": self.state_clean(c)}
        return d


@register
class Backup(_Schema):
    """BranchingValues.backup(): a copy of the name->value map; secret values are shared, lists copied"""
    name = "pysnark.branching:BranchingValues.backup"
    probe = False

    def configs(self, tier):
        return [dict()]

    def setup(self, c, cfg):
        apply_mode(c, "plain")
        br = self.br(c)
        _ = br.BranchingValues()
        self._x = c.operand("x")
        self._l = [c.operand("l0"), 5]
        _.x = self._x
        _.lst = self._l
        _.k = 7
        return br.BranchingValues.backup, (_,), {}

    def post(self, c, r, ctx):
        return {"V.keys": isinstance(r, dict) and sorted(r) == ["k", "lst", "x"],
                "V.shares_secret_values": r["x"] is self._x and r["lst"][0] is self._l[0],
                "V.copies_containers": r["lst"] is not self._l and r["lst"] == self._l,
                "F.context_unchanged": ctx.vals["x"] is self._x and ctx.vals["lst"] is self._l and ctx.vals["k"] == 7}


@register
class SchemaElifGuards(_Schema):
    """_if(c1) .. _elif(lambda: a < b) .. _endif with bodies that assign nothing (assertion-only branches: the one
    block shape that completes on the pinned tree).  What each body runs under: the first under c1, the second under
    (not c1) AND (a < b) -- and the elif condition itself is evaluated OUTSIDE the first branch's guard, so its value
    is the plain comparison whatever c1 is."""
    name = "pysnark.branching:_if#elif_guards"
    vprops = ("C09", "C07", "C08")
    fprops = ("C09", "C08", "C07")

    def configs(self, tier):
        return [dict(cond="secret_lc", bits=3)]

    def setup(self, c, cfg):
        apply_mode(c, "plain", bitlength=cfg["bits"])
        br = self.br(c)
        rt = c.rt
        a, b = c.operand("a"), c.operand("b")
        c1 = _cond(c, cfg["cond"], "c1")
        self._ops = (a, b, c1)
        self._seen = []
        self._condval = []

        def probe(tag):
            self._seen.append((tag, rt.guard, rt.ignore_errors()))

        def lt():
            r = a < b
            self._condval.append(r)
            return r.lc
        return c.client("""
def prog():
    _ = BranchingValues()
    if _if(c1):
        probe("if")
    if _elif(lt):
        probe("elif")
    _endif()
    return _
""", c1=c1, probe=probe, lt=lt, **API(br)), (), {}

    def pre(self, c):
        a, b, c1 = self._ops
        n = c.bitlength
        return [in_range(c.v(b) - c.v(a) - 1, n), (1 << (n + 1)) < c.p]

    def post(self, c, r, *a_):
        a, b, c1 = self._ops
        d = {"V.both_bodies_ran": [t for t, g, ie_ in self._seen] == ["if", "elif"] and len(self._condval) == 1,
             "F.stack_empty": len(r.stack) == 0, "F.guard_state_restored": self.state_clean(c)}
        if not d["V.both_bodies_ran"]:
            return d
        lt = If(c.v(a) < c.v(b), 1, 0)
        (_, g1, ie1), (_, g2, ie2) = self._seen
        d["V.elif_condition_is_the_plain_comparison"] = Eq(c.v(self._condval[0]), lt)
        d["V.first_body_guard"] = g1 is not None and Eq(c.v(g1), c.v(c1))
        d["V.second_body_guard"] = g2 is not None and Eq(c.v(g2), If(And(c.v(c1) == 0, lt == 1), 1, 0))
        d["V.errors_off_iff_dead[if]"] = formula(ie1) == (c.v(c1) == 0)
        d["V.errors_off_iff_dead[elif]"] = formula(ie2) == Not(And(c.v(c1) == 0, lt == 1))
        return d


@register
class SchemaElifElseGuardsSound(_Schema):
    """_if(c1) .. _elif(lambda: a < b) .. _else .. _endif with assertion-only bodies, seen by a dishonest prover: the
    guard each body runs under is DETERMINED by the wires of the two conditions -- (c1), (1-c1)(a<b), (1-c1)(1-(a<b))
    -- in every assignment that satisfies the constraints.  (A guard derived inside another branch's region is only
    constrained while that branch is live: a prover could then switch a taken branch off.)"""
    name = "pysnark.branching:_if#elif_else_guards_sound"
    vprops = ("C09", "C07", "C08")
    fprops = ("C09", "C08", "C07")
    sprops = ("C02", "C03", "C09", "C08")
    cprops = ()
    tprops = ()

    def configs(self, tier):
        return [dict(cond="secret_lc", bits=3)]

    def setup(self, c, cfg):
        apply_mode(c, "plain", bitlength=cfg["bits"])
        br = self.br(c)
        rt = c.rt
        a, b = c.operand("a"), c.operand("b")
        c1 = _cond(c, cfg["cond"], "c1")
        self._ops = (a, b, c1)
        self._seen = []
        self._condval = []

        def probe(tag):
            self._seen.append((tag, rt.guard, rt.ignore_errors()))

        def lt():
            r = a < b
            self._condval.append(r)
            return r.lc
        return c.client("""
def prog():
    _ = BranchingValues()
    if _if(c1):
        probe("if")
    if _elif(lt):
        probe("elif")
    if _else():
        probe("else")
    _endif()
    return _
""", c1=c1, probe=probe, lt=lt, **API(br)), (), {}

    def pre(self, c):
        a, b, c1 = self._ops
        n = c.bitlength
        return [in_range(c.v(b) - c.v(a) - 1, n), (1 << (n + 1)) < c.p]

    def post(self, c, r, *a_):
        a, b, c1 = self._ops
        d = {"V.all_bodies_ran": [t for t, g, ie_ in self._seen] == ["if", "elif", "else"] and len(self._condval) == 1,
             "F.stack_empty": len(r.stack) == 0, "F.guard_state_restored": self.state_clean(c)}
        if not d["V.all_bodies_ran"]:
            return d
        lt = If(c.v(a) < c.v(b), 1, 0)
        (_, g1, ie1), (_, g2, ie2), (_, g3, ie3) = self._seen
        d["V.else_body_guard"] = g3 is not None and Eq(c.v(g3), If(And(c.v(c1) == 0, lt == 0), 1, 0))
        d["V.errors_off_iff_dead[else]"] = formula(ie3) == Not(And(c.v(c1) == 0, lt == 0))
        if g1 is None or g2 is None or g3 is None:
            return d
        # with the inputs as given (operand wires carrying the honest values), every assignment satisfying the
        # constraints gives the guard wires their honest values: the prover cannot move a guard
        hyp = And(c.tied(c1), c.tied(a), c.tied(b))
        d["S.elif_guard_determined"] = Implies(hyp, c.eva(g2) == c.v(g2) % c.p)
        d["S.else_guard_determined"] = Implies(hyp, c.eva(g3) == c.v(g3) % c.p)
        d["canary.S.else_guard_determined"] = Implies(hyp, c.eva(g3) == (1 - c.v(g3)) % c.p)
        return d


@register
class SchemaForBreakGuards(_Schema):
    """for i in _range(3) over a PUBLIC bound with a secret _breakif in every iteration (assertion-only body): once a
    break has fired, the rest of that iteration AND every later iteration run under a dead guard -- the guard at the
    top of iteration i is the product of (1 - b_j) over the earlier iterations, whatever kind the loop's own
    continuation condition is (here the plain `i != stop`)."""
    name = "pysnark.branching:_range#for_break_guards"
    vprops = ("C09", "C07", "C08")
    fprops = ("C09", "C08", "C07")
    sprops = ("C02", "C03", "C08", "C09")

    def configs(self, tier):
        return [dict(cond="secret_lc", bits=3)]

    def setup(self, c, cfg):
        apply_mode(c, "plain", bitlength=cfg["bits"])
        br = self.br(c)
        rt = c.rt
        bs = tuple(_cond(c, cfg["cond"], "b%d" % i) for i in range(3))
        self._ops = bs
        self._seen = []

        def probe(tag, i):
            self._seen.append((tag, i, rt.guard, rt.ignore_errors()))
        return c.client("""
def prog():
    _ = BranchingValues()
    for i in _range(3):
        probe("top", i)
        _breakif(bs[i])
        probe("after", i)
    _endfor()
    return _
""", bs=bs, probe=probe, **API(br)), (), {}

    def pre(self, c):
        return [(1 << (c.bitlength + 1)) < c.p]

    def post(self, c, r, *a_):
        bs = self._ops
        d = {"V.all_iterations_ran": [(t, i) for t, i, g, ie_ in self._seen] == [(t, i) for i in range(3) for t in ("top", "after")],
             "F.stack_empty": len(r.stack) == 0, "F.guard_state_restored": self.state_clean(c)}
        if not d["V.all_iterations_ran"]:
            return d
        gv = lambda g: term(1) if g is None else c.v(g)
        tied = And(*[c.tied(b) for b in bs])
        for t, i, g, ie_ in self._seen:
            alive = And(*[c.v(bs[j]) == 0 for j in range(i + (1 if t == "after" else 0))])
            d["V.guard[%s %d]" % (t, i)] = Eq(gv(g), If(alive, 1, 0))
            d["V.errors_off_iff_dead[%s %d]" % (t, i)] = formula(ie_) == Not(alive)
            if g is not None:
                # for a dishonest prover too: with the break conditions as given, the guard wire of every iteration is
                # forced to the conjunction (a conjunction derived inside the previous iteration's region is not)
                d["S.guard_determined[%s %d]" % (t, i)] = Implies(tied, c.eva(g) == c.v(g) % c.p)
        return d


@register
class SchemaEmptyRangeInRegion(_Schema):
    """_if(a) .. for i in _range(0): .. _endfor() .. _endif(): a for loop over an EMPTY public range inside a region.
    The pinned tree refuses it (KF-24); whatever a tree does with it, once the loop construct has been closed the guard
    state is the one from before the loop -- `_endfor` must close the loop's own region, never the enclosing one."""
    name = "pysnark.branching:_range#empty_in_region"
    vprops = ("C09", "C08")
    fprops = ("C09", "C08")
    cprops = tprops = ()
    skip_facets = "CTN"
    raises_unspecified = True
    covers_normal = False

    def configs(self, tier):
        return [dict(cond="secret_lc", bits=3, bounds=b) for b in ("0", "5,3")]

    def setup(self, c, cfg):
        apply_mode(c, "plain", bitlength=cfg["bits"])
        br = self.br(c)
        rt = c.rt
        a = _cond(c, cfg["cond"], "a")
        self._seen = []

        def probe(tag):
            self._seen.append((tag, rt.guard, rt.ignore_errors(), rt.LinComb.ONE))
        bounds = tuple(int(x) for x in cfg["bounds"].split(","))
        return c.client("""
def prog():
    _ = BranchingValues()
    if _if(a):
        probe("before")
        for i in _range(*bounds):
            probe("body")
        _endfor()
        probe("after")
    _endif()
    return _
""", a=a, probe=probe, bounds=bounds, **API(br)), (), {}

    def _loop_closed_cleanly(self, c):
        seen = {t: (g, ie_, one) for t, g, ie_, one in self._seen if t != "body"}
        if "after" not in seen or "before" not in seen:
            return True           # the loop was refused before it could be closed
        (g0, i0, o0), (g1, i1, o1) = seen["before"], seen["after"]
        return And(g0 is g1, o0 is o1, formula(i0) == formula(i1))

    def post(self, c, r, *a_):
        return {"F.state_after_loop_is_state_before_it": self._loop_closed_cleanly(c),
                "F.stack_empty": len(r.stack) == 0, "F.guard_state_restored": self.state_clean(c)}

    def post_exc(self, c, e, *a, **k):
        return {"F.state_after_loop_is_state_before_it": self._loop_closed_cleanly(c)}


@register
class SchemaForStartStop(_Schema):
    """for i in _range(start, stop) with PUBLIC bounds given as two arguments, start possibly negative and stop
    possibly 0: the body runs for exactly the values of range(start, stop)."""
    name = "pysnark.branching:_range#for_start_stop"

    def configs(self, tier):
        return [dict(bits=4, start=s, stop=e) for s, e in ((-2, 0), (1, 3), (-1, 2), (-1, 0))]

    def setup(self, c, cfg):
        apply_mode(c, "plain", bitlength=cfg["bits"])
        br = self.br(c)
        acc0 = c.operand("acc0")
        self._ops = (acc0,)
        self._is = []
        return c.client("""
def prog():
    _ = BranchingValues()
    _.acc = acc0
    for i in _range(start, stop):
        seen.append(i)
        _.acc = _.acc + i
    _endfor()
    return _
""", acc0=acc0, start=cfg["start"], stop=cfg["stop"], seen=self._is, **API(br)), (), {}

    def post(self, c, r, *a_):
        (acc0,) = self._ops
        want = list(range(c.cfg["start"], c.cfg["stop"]))
        return {"V.iterations": [int(i) for i in self._is] == want,
                "V.acc": Eq(c.v(r.acc), c.v(acc0) + sum(want)), "V.inv": c.inv(r.acc),
                "F.stack_empty": len(r.stack) == 0, "F.guard_state_restored": self.state_clean(c)}


@register
class SchemaElifConditionChangesState(_Schema):
    """_if(c1) .. _elif(cond2) .. _endif() where evaluating the elif condition -- which happens BETWEEN the two regions --
    itself changes the guard state (the program switches the run-time checks off there).  Each region is left to the
    state it was entered from: after _endif the switch is still off."""
    name = "pysnark.branching:_if#elif_condition_changes_state"
    vprops = ("C09", "C08")
    fprops = ("C09", "C08")
    cprops = tprops = ()
    skip_facets = "CTN"

    def configs(self, tier):
        return [dict(cond="secret_lc", bits=3)]

    def setup(self, c, cfg):
        apply_mode(c, "plain", bitlength=cfg["bits"])
        br = self.br(c)
        rt = c.rt
        c1, c2 = _cond(c, cfg["cond"], "c1"), _cond(c, cfg["cond"], "c2")
        self._between = []

        def cond2():
            rt.ignore_errors(True)
            self._between.append((rt.guard, rt.ignore_errors(), rt.LinComb.ONE))
            return c2
        return c.client("""
def prog():
    _ = BranchingValues()
    if _if(c1):
        pass
    if _elif(cond2):
        pass
    _endif()
    return _
""", c1=c1, cond2=cond2, **API(br)), (), {}

    def pre(self, c):
        return [(1 << (c.bitlength + 1)) < c.p]

    def post(self, c, r, *a_):
        now = c.now
        ok = len(self._between) == 1
        d = {"V.condition_evaluated_once": ok, "F.stack_empty": len(r.stack) == 0}
        if ok:
            g, ie_, one = self._between[0]
            d["F.state_after_statement_is_state_before_the_elif_region"] = And(now["guard"] is g, now["ONE"] is one, formula(now["ie"]) == formula(ie_))
        return d


class _CopiesOnlyNTimes:
    """a branch variable whose deep copy succeeds `n` times and then fails (an open file, a lock, a generator, a
    handle with a copy budget...): the snapshot a region takes of the branch variables can fail at ANY entry."""

    def __init__(self, n):
        self.left = n

    def __deepcopy__(self, memo):
        if self.left <= 0:
            raise TypeError("cannot copy this value any more")
        self.left -= 1
        return self


@register
class SchemaEntryFailsAtomically(_Schema):
    """Entering (or re-entering) a region snapshots the branch variables; a variable that cannot be copied makes that
    fail with the variable's own exception.  A failed entry is no entry: the guard, the error flag and the constant one
    are what they were before the construct was called (C08) -- nothing holds the saved state of a region that was
    never pushed, so nothing could ever restore it."""
    name = "pysnark.branching:BranchContext.enter#snapshot_fails"
    vprops = ("C08",)
    fprops = ("C08", "C09")
    cprops = tprops = ()
    skip_facets = "CTN"
    raises_unspecified = True
    covers_normal = False

    PROGRAMS = {
        "if": """
def prog():
    _ = BranchingValues()
    _.h = handle
    _if(a)
    reached.append("entered")
""",
        "if_elif": """
def prog():
    _ = BranchingValues()
    _.h = handle
    if _if(a):
        reached.append("first")
    if _elif(lambda: b):
        reached.append("entered")
""",
        "if_else": """
def prog():
    _ = BranchingValues()
    _.h = handle
    if _if(a):
        reached.append("first")
    if _else():
        reached.append("entered")
""",
        "while": """
def prog():
    _ = BranchingValues()
    _.h = handle
    _while(a)
    reached.append("entered")
""",
        "while_breakif": """
def prog():
    _ = BranchingValues()
    _.h = handle
    _while(a)
    reached.append("first")
    _breakif(b)
    reached.append("entered")
""",
        "for": """
def prog():
    _ = BranchingValues()
    _.h = handle
    for i in _range(a, max=2):
        reached.append("entered")
""",
        "for_second_iteration": """
def prog():
    _ = BranchingValues()
    _.h = handle
    for i in _range(a, max=2):
        reached.append("first" if i == 0 else "entered")
""",
    }
    SECOND = ("if_elif", "if_else", "while_breakif", "for_second_iteration")

    def configs(self, tier):
        return [dict(program=p, outer=o, bits=3) for p in self.PROGRAMS for o in ("none", "live")] + \
               [dict(program="if", outer="none", bits=3, handle="generator")]

    def setup(self, c, cfg):
        apply_mode(c, "g1" if cfg["outer"] == "live" else "plain", bitlength=cfg["bits"])
        br = self.br(c)
        a, b = _cond(c, "secret_lc", "a"), _cond(c, "secret_lc", "b")
        handle = (i for i in ()) if cfg.get("handle") == "generator" else _CopiesOnlyNTimes(1 if cfg["program"] in self.SECOND else 0)
        self._reached = []
        return c.client(self.PROGRAMS[cfg["program"]], a=a, b=b, handle=handle, reached=self._reached, **API(br)), (), {}

    def pre(self, c):
        return [(1 << (c.bitlength + 1)) < c.p]

    def post(self, c, r, *a_):
        return {"V.entry_without_a_snapshot_is_refused": False}

    def post_exc(self, c, e, *a, **k):
        return {"V.the_failing_entry_was_not_made": "entered" not in self._reached,
                "V.fails_with_the_variable's_own_exception": isinstance(e, TypeError),
                "F.guard_state_restored": self.state_clean(c)}


@register
class SchemaWhileAnywhereInTheFile(_Schema):
    """while _while(c): ... _endwhile() with no branch variables, three iterations, the loop written near the top of
    the client's file or three hundred lines further down (`_while` recognises "the same loop again" by the call's
    source line): every iteration RE-ENTERS the one region -- the guard inside is the running conjunction, and after
    `_endwhile` the stack is empty and guard, error flag and constant one are those from before the loop."""
    name = "pysnark.branching:_while#same_loop_any_line"
    vprops = ("C09", "C08")
    fprops = ("C09", "C08")
    cprops = tprops = ()
    skip_facets = "CTN"

    def configs(self, tier):
        return [dict(cond=k, bits=3, line=l) for k in ("secret_lc", "public_true") for l in (6, 300, 70000)]

    def setup(self, c, cfg):
        apply_mode(c, "plain", bitlength=cfg["bits"])
        br = self.br(c)
        rt = c.rt
        conds = tuple(_cond(c, cfg["cond"], "c%d" % i) for i in range(3))
        self._ops = conds
        self._seen = []

        def probe(i):
            self._seen.append((i, rt.guard, rt.ignore_errors(), rt.LinComb.ONE, len(stack_of[0].stack)))
        stack_of = []
        return c.client("\n" * (cfg["line"] - 6) + """
def prog():
    _ = BranchingValues()
    stack_of.append(_)
    n = 0
    while n < 3 and _while(conds[n]):
        probe(n)
        n += 1
    _endwhile()
    return _
""", conds=conds, probe=probe, stack_of=stack_of, **API(br)), (), {}

    def pre(self, c):
        return [(1 << (c.bitlength + 1)) < c.p]

    def post(self, c, r, *a_):
        d = {"V.three_iterations": [s[0] for s in self._seen] == [0, 1, 2],
             "F.one_region_for_the_whole_loop": all(s[4] == 1 for s in self._seen),
             "F.stack_empty": len(r.stack) == 0, "F.guard_state_restored": self.state_clean(c)}
        if c.cfg["cond"] == "secret_lc" and d["V.three_iterations"]:
            run = z3.BoolVal(True)
            for (i, g, ie_, one, depth), cond in zip(self._seen, self._ops):
                run = And(run, c.v(cond) == 1)
                d["V.guard[%d]" % i] = And(g is not None and one is g, Eq(c.v(g), If(run, 1, 0)) if g is not None else False)
                d["V.errors_off_iff_dead[%d]" % i] = formula(ie_) == Not(run)
        return d
