"""Contracts for pysnark/branching.py: selection."""
import z3
from .common import *
from .boolean_c import is01


def _ov(c, y):
    return c.v(y) if not isinstance(y, int) else term(y)


def _oa(c, y):
    return c.eva(y) if not isinstance(y, int) else term(y) % c.p


@register
class IfThenElse(Contract):
    """if_then_else(cond, t, f): t if cond else f, for a LinCombBool condition and value branches."""
    name = "pysnark.branching:if_then_else"
    vprops = ("C05", "C09")
    sprops = ("C02", "C09")
    modules = ("pysnark.runtime", "pysnark.boolean", "pysnark.fixedpoint", "pysnark.branching")

    def configs(self, tier):
        return [dict(mode=m, kind=k) for m in MODES for k in ("ss", "sk", "ks", "kk")]

    def setup(self, c, cfg):
        apply_mode(c, cfg["mode"])
        k = cfg["kind"]
        t = c.operand("t") if k[0] == "s" else c.public_int("kt")
        f = c.operand("f") if k[1] == "s" else c.public_int("kf")
        return c.w.modules["pysnark.branching"].if_then_else, (c.operand_bool("c"), t, f), {}

    def use_stub(self, c, cond, t, f):
        # summarised only for a LinCombBool condition with LinComb / int branches
        ok = lambda v: isinstance(v, (c.LinComb, int)) and not callable(v)
        return isinstance(cond, c.LinCombBool) and ok(t) and ok(f) and (t is not f)

    def result(self, c, cond, t, f):
        return c.fresh_lincomb(lift(If(c.v(cond) == 1, _ov(c, t), _ov(c, f))), "sel")

    def post(self, c, r, cond, t, f):
        ca = c.eva(cond)
        d = {
            "V.value": Implies(is01(c.v(cond)), Eq(c.v(r), If(c.v(cond) == 1, _ov(c, t), _ov(c, f)))),
            "V.inv": c.inv(r),
            "S.select": Implies(is01(ca), c.eva(r) == If(ca == 1, _oa(c, t), _oa(c, f))),
            "canary.S.select": Implies(is01(ca), c.eva(r) == If(ca == 1, _oa(c, f), _oa(c, t))),
        }
        return d

    def counts(self, c, cond, t, f):
        both_int = isinstance(t, int) and isinstance(f, int)
        return (0, 0, 0) if both_int else (0, 1, 1)
