"""Contracts for pysnark/branching.py: selection."""
import z3
from .common import *
from .boolean_c import is01


def _ov(c, y):
    return c.v(y) if not isinstance(y, int) else term(y)


def _oa(c, y):
    return c.eva(y) if not isinstance(y, int) else term(y) % c.p


@register
class IfThenElse(Contract):
    """if_then_else(cond, t, f): t if cond else f, for a LinCombBool condition and value branches."""
    name = "pysnark.branching:if_then_else"
    vprops = ("C05", "C09")
    sprops = ("C02", "C09")
    modules = ("pysnark.runtime", "pysnark.boolean", "pysnark.fixedpoint", "pysnark.branching")

    def configs(self, tier):
        return [dict(mode=m, kind=k) for m in MODES for k in ("ss", "sk", "ks", "kk")]

    def setup(self, c, cfg):
        apply_mode(c, cfg["mode"])
        k = cfg["kind"]
        t = c.operand("t") if k[0] == "s" else c.public_int("kt")
        f = c.operand("f") if k[1] == "s" else c.public_int("kf")
        return c.w.modules["pysnark.branching"].if_then_else, (c.operand_bool("c"), t, f), {}

    def use_stub(self, c, cond, t, f):
        # summarised only for a LinCombBool condition with LinComb / int branches
        ok = lambda v: isinstance(v, (c.LinComb, int)) and not callable(v)
        return isinstance(cond, c.LinCombBool) and ok(t) and ok(f) and (t is not f)

    def result(self, c, cond, t, f):
        return c.fresh_lincomb(lift(If(c.v(cond) == 1, _ov(c, t), _ov(c, f))), "sel")

    def post(self, c, r, cond, t, f):
        ca = c.eva(cond)
        d = {
            "V.value": Implies(is01(c.v(cond)), Eq(c.v(r), If(c.v(cond) == 1, _ov(c, t), _ov(c, f)))),
            "V.inv": c.inv(r),
            "S.select": Implies(is01(ca), c.eva(r) == If(ca == 1, _oa(c, t), _oa(c, f))),
            "canary.S.select": Implies(is01(ca), c.eva(r) == If(ca == 1, _oa(c, f), _oa(c, t))),
        }
        return d

    def counts(self, c, cond, t, f):
        both_int = isinstance(t, int) and isinstance(f, int)
        return (0, 0, 0) if both_int else (0, 1, 1)



@register
class IfThenElseList(Contract):
    """if_then_else(cond, [..], [..]): element-wise selection into a NEW list; the operand lists
    (and nested lists) are left exactly as they were."""
    name = "pysnark.branching:if_then_else#list"
    modules = ("pysnark.runtime", "pysnark.boolean", "pysnark.fixedpoint", "pysnark.branching")
    vprops = ("C05", "C09")
    sprops = ("C02", "C09")
    fprops = ("C09",)

    def configs(self, tier):
        return [dict(mode=m) for m in ("plain", "g0")]

    def setup(self, c, cfg):
        apply_mode(c, cfg["mode"])
        t = [c.operand("t0"), c.public_int("kt1"), [c.operand("t2"), c.operand("t3")]]
        f = [c.operand("f0"), c.operand("f1"), [c.public_int("kf2"), c.operand("f3")]]
        self._t, self._f = t, f
        self._tcopy = [t[0], t[1], list(t[2])]
        self._fcopy = [f[0], f[1], list(f[2])]
        self._tinner, self._finner = t[2], f[2]
        return c.w.modules["pysnark.branching"].if_then_else, (c.operand_bool("c"), t, f), {}

    def use_stub(self, c, *a):
        return False

    def post(self, c, r, cond, t, f):
        flat = lambda x: [x[0], x[1], x[2][0], x[2][1]]
        same = lambda a, b: all(u is v for u, v in zip(flat(a), flat(b)))
        d = {"V.shape": isinstance(r, list) and len(r) == 3 and isinstance(r[2], list) and len(r[2]) == 2}
        if not d["V.shape"]:
            return d
        cv = c.v(cond)
        d["V.values"] = And(*[Eq(_ov(c, x), If(cv == 1, _ov(c, a), _ov(c, b))) for x, a, b in zip(flat(r), flat(self._tcopy), flat(self._fcopy))])
        d["V.inv"] = And(*[c.inv(x) for x in flat(r) if not isinstance(x, int)])
        d["F.true_branch_list_unchanged"] = t is self._t and t[2] is self._tinner and same(t, self._tcopy)
        d["F.false_branch_list_unchanged"] = f is self._f and f[2] is self._finner and same(f, self._fcopy)
        d["F.result_is_new_list"] = r is not t and r is not f and r[2] is not t[2] and r[2] is not f[2]
        return d


@register
class IfThenElseMixedKinds(Contract):
    """if_then_else(cond, t, f) where the two branches are secrets of DIFFERENT kinds (boolean flag, integer,
    fixed-point number): the result represents the NUMBER of the selected branch (a branch that has to change type to
    be combined with the other one is converted, not rescaled twice or left unscaled), for both condition values."""
    name = "pysnark.branching:if_then_else#mixed_kinds"
    vprops = ("C05", "C09", "C14")
    sprops = ("C02",)
    eprops = ()
    tprops = ()
    skip_facets = "TN"
    guard_relevant = False
    raises_unspecified = True
    modules = ("pysnark.runtime", "pysnark.boolean", "pysnark.fixedpoint", "pysnark.branching")

    KINDS = [("fxp", "bool"), ("bool", "fxp"), ("fxp", "int"), ("int", "fxp"), ("bool", "int"), ("int", "bool"), ("fxp", "fxp"), ("bool", "bool")]

    def configs(self, tier):
        return [dict(mode="plain", t=t, f=f, res=3) for t, f in self.KINDS]

    def setup(self, c, cfg):
        apply_mode(c, cfg["mode"], bitlength=6)
        c.w.modules["pysnark.fixedpoint"].resolution = cfg["res"]
        mk = {"bool": lambda nm: c.operand_bool(nm), "int": lambda nm: c.operand(nm), "fxp": lambda nm: c.mk_fxp(c.operand(nm))}
        return c.w.modules["pysnark.branching"].if_then_else, (c.operand_bool("c"), mk[cfg["t"]]("t"), mk[cfg["f"]]("f")), {}

    def use_stub(self, c, *a):
        return False

    def post(self, c, r, cond, t, f):
        R = 1 << c.cfg["res"]
        number = lambda o: (c.v(o), R) if isinstance(o, c.LinCombFxp) else (c.v(o), 1)
        ok = hasattr(r, "lc")
        d = {"V.secret_result": ok}
        if ok:
            rn, rd = number(r)
            tn, td = number(t)
            fn_, fd = number(f)
            d["V.selected_number"] = If(c.v(cond) == 1, rn * td == tn * rd, rn * fd == fn_ * rd)
            d["V.inv"] = c.inv(r)
            if isinstance(r, c.LinCombBool):
                # a result TYPED boolean is trusted to be a bit by every later operator (no booleanity constraint is
                # added for it again): the constraints must force it to be one, whatever the witness of a raw branch
                d["S.boolean_typed_result_is_a_bit"] = Implies(And(is01(c.eva(cond)), *[is01(c.eva(o)) for o in (t, f) if isinstance(o, c.LinCombBool)]),
                                                               is01(c.eva(r)))
        return d


@register
class IfThenElseBoolVsPlain(Contract):
    """if_then_else(cond, flag, k) / (cond, k, flag) for a secret boolean flag and ANY plain integer k: the selected
    number, for both condition values, and no refusal that depends on which branch is selected."""
    name = "pysnark.branching:if_then_else#bool_vs_plain"
    vprops = ("C05", "C09")
    sprops = eprops = ()
    tprops = ()
    skip_facets = "TN"
    guard_relevant = False
    modules = ("pysnark.runtime", "pysnark.boolean", "pysnark.fixedpoint", "pysnark.branching")

    def configs(self, tier):
        return [dict(mode="plain", order=o) for o in ("flag_then_plain", "plain_then_flag")]

    def setup(self, c, cfg):
        apply_mode(c, cfg["mode"], bitlength=4)
        flag, k = c.operand_bool("flag"), c.public_int("k")
        t, f = (flag, k) if cfg["order"] == "flag_then_plain" else (k, flag)
        return c.w.modules["pysnark.branching"].if_then_else, (c.operand_bool("c"), t, f), {}

    def use_stub(self, c, *a):
        return False

    def raises(self, c, cond, t, f):
        return []

    def post(self, c, r, cond, t, f):
        num = lambda o: term(o) if isinstance(o, int) else c.v(o)
        ok = hasattr(r, "lc") or isinstance(r, int)
        d = {"V.secret_or_plain_result": ok}
        if ok:
            d["V.selected_number"] = Implies(is01(c.v(cond)), Eq(num(r), If(c.v(cond) == 1, num(t), num(f))))
            if hasattr(r, "lc"):
                d["V.inv"] = c.inv(r)
        return d
