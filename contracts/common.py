"""Shared pieces of the sidecar contracts: flag/guard modes and width sets."""
import z3
from pyvc.sym import SymInt, SymBool, term, formula, cur, lift, liftb, imul, fmul, Z
from pyvc.contract import (Contract, register, And, Or, Not, Implies, If, Eq, modeq)

# flag / guard states a gadget can be entered in (established by add_guard; C08 proves that)
#   plain : error checks on, no guard          ie   : ignore_errors(True), no guard
#   g1    : guard present with value 1         g0   : guard present with value 0 (=> errors ignored)
MODES = ("plain", "ie", "g1", "g0")
UNGUARDED = ("plain", "ie")

WIDTHS_QUICK = (1, 3, 8)
WIDTHS_THOROUGH = (1, 2, 3, 4, 8, 16, 32)


def widths(tier):
    return WIDTHS_QUICK if tier == "quick" else WIDTHS_THOROUGH


def apply_mode(c, mode, bitlength=None):
    """Put the runtime into one of the four states; the guard's value stays symbolic."""
    rt = c.rt
    if bitlength is not None:
        rt.bitlength = bitlength
    if mode == "plain":
        rt._ignore_errors = False
    elif mode == "ie":
        rt._ignore_errors = True
    elif mode in ("g1", "g0", "g1ie"):
        G = c.operand("guard")
        cur().assume(term(G.value) == (0 if mode == "g0" else 1))
        rt.guard = G
        rt.LinComb.ONE = G
        rt._ignore_errors = mode != "g1"
    else:
        raise ValueError(mode)
    c.mode = mode


def tgroup(cfg):
    """Configurations whose traces must be identical (C06): same public parameters,
    any values, errors on or off, either guard value."""
    d = {k: v for k, v in cfg.items() if k != "mode"}
    d["guarded"] = cfg.get("mode", "plain") in ("g1", "g0", "g1ie")
    return repr(sorted(d.items()))


def in_range(v, n):
    """-2^n < v < 2^n   (int.bit_length() <= n)"""
    return z3.And(v > -(1 << n), v < (1 << n))


def canon(c, v):
    """Operand value is the canonical representative of its residue: |v| < p/2."""
    h = c.p // 2
    return z3.And(v > -h, v < h)
