"""Shared pieces of the sidecar contracts: flag/guard modes and width sets."""
import z3
from pyvc.sym import SymInt, SymBool, term, formula, cur, lift, liftb, imul, fmul, Z
from pyvc.contract import (Contract, register, And, Or, Not, Implies, If, Eq, modeq)

# flag / guard states a gadget can be entered in (established by add_guard; C08 proves that)
#   plain : error checks on, no guard          ie   : ignore_errors(True), no guard
#   g1    : guard present with value 1         g0   : guard present with value 0 (=> errors ignored)
MODES = ("plain", "ie", "g1", "g0")
UNGUARDED = ("plain", "ie")

WIDTHS_QUICK = (0, 1, 3, 8)
WIDTHS_THOROUGH = (0, 1, 2, 3, 4, 8, 16, 32)


def widths(tier):
    return WIDTHS_QUICK if tier == "quick" else WIDTHS_THOROUGH


def apply_mode(c, mode, bitlength=None):
    """Put the runtime into one of the four states; the guard's value stays symbolic."""
    rt = c.rt
    if bitlength is not None:
        rt.bitlength = bitlength
    if mode == "plain":
        rt._ignore_errors = False
    elif mode == "ie":
        rt._ignore_errors = True
    elif mode in ("g1", "g0", "g1ie"):
        G = c.operand("guard")
        cur().assume(term(G.value) == (0 if mode == "g0" else 1))
        rt.guard = G
        rt.LinComb.ONE = G
        rt._ignore_errors = mode != "g1"
    else:
        raise ValueError(mode)
    c.mode = mode


def tgroup(cfg):
    """Configurations whose traces must be identical (C06): same public parameters,
    any values, errors on or off, either guard value."""
    d = {k: v for k, v in cfg.items() if k != "mode"}
    d["guarded"] = cfg.get("mode", "plain") in ("g1", "g0", "g1ie")
    return repr(sorted(d.items()))


def in_range(v, n):
    """-2^n < v < 2^n   (int.bit_length() <= n)"""
    return z3.And(v > -(1 << n), v < (1 << n))


def canon(c, v):
    """Operand value is the canonical representative of its residue: |v| < p/2."""
    h = c.p // 2
    return z3.And(v > -h, v < h)


def guarded(c):
    return c.rt.guard is not None


def ie(c):
    """ignore_errors() as a formula (concrete in every mode used here)."""
    return formula(c.rt._ignore_errors)


def isg(c):
    """runtime.is_guard(): no guard, or the guard's value is 1."""
    return c.is_guard()


def on(c):
    """The constraints added through add_constraint are in force for the adversary:
    no guard, or the guard wire evaluates to 1."""
    g = c.rt.guard
    if g is None:
        return z3.BoolVal(True)
    return c.eva(g) == 1


def n_ac(c, k=1):
    """events of k calls of add_constraint: 1 triple, or (guarded) 1 dummy witness + 2 triples"""
    return (0, k, 2 * k) if guarded(c) else (0, 0, k)


def n_pvb(c, k=1):
    """events of k calls of PrivValBool"""
    a = n_ac(c, k)
    return (0, k + a[1], a[2])


def addc(*cs):
    return tuple(sum(x) for x in zip(*cs))


def bitsum(terms):
    return z3.Sum([Z(0)] + [(1 << i) * t for i, t in enumerate(terms)])


# frame of the functions that enter / leave a guarded region (and of client programs that use them)
GUARD_STATE = ("pysnark.runtime:guard", "pysnark.runtime:_ignore_errors", "pysnark.runtime:LinComb.ONE")
