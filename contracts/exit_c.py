"""Contracts for proving-at-exit (C18): pysnark/atexitmaybe.py and runtime.final.

Code side (proved here): the four small functions that decide whether the proving step runs.
Interpreter side (NOT provable: CPython's shutdown is C code): which of sys.exit /
sys.excepthook / atexit callbacks the interpreter invokes for each termination mode is an
*assumed environment contract*; pyvc/exitprobe.py validates each of its clauses on the
installed CPython with one subprocess per (termination mode, position)."""
import types
import z3
from .common import *


class _Proc(Contract):
    layer = "process"
    cprops = sprops = eprops = tprops = ()
    vprops = ("C18",)
    fprops = ("C18",)
    guard_relevant = False
    modules = ("pysnark.atexitmaybe",)

    def world_setup(self, w):
        pass

    def use_stub(self, c, *a, **k):
        return False


EXITCODES = ("none", "zero", "int", "str", "false", "true", "empty_str", "empty_list", "float_zero")


def _exitcode(kind):
    if kind == "none":
        return None
    if kind == "zero":
        return 0
    if kind == "int":
        n = SymInt(z3.Int("k_exitcode"))
        return n
    if kind == "str":
        return "fatal: something went wrong"
    if kind == "false":
        return False
    if kind == "empty_str":
        return ""            # sys.exit(''): prints it, exit status 1
    if kind == "empty_list":
        return []            # any non-int, non-None object: exit status 1
    if kind == "float_zero":
        return 0.0           # not an int: CPython prints it and exits with status 1
    return True


def _success(code):
    """The run ended successfully: exit status 0 (None, 0, False all mean status 0)."""
    if code is None:
        return z3.BoolVal(True)
    if not isinstance(code, int):
        return z3.BoolVal(False)     # str, list, float, ...: CPython prints the object and exits with status 1
    return term(code) == 0


@register
class MaybeInner(_Proc):
    """maybe(fn)(): fn runs exactly once iff the script ended with status 0 and without an
    uncaught exception; otherwise a message goes to stderr and fn is not called."""
    name = "pysnark.atexitmaybe:maybe.<locals>.maybe_"

    def configs(self, tier):
        return [dict(exitcode=k, exception=e) for k in EXITCODES for e in (False, True)]

    def setup(self, c, cfg):
        m = c.w.modules["pysnark.atexitmaybe"]
        m.override.exitcode = _exitcode(cfg["exitcode"])
        m.override.exception = ValueError("boom") if cfg["exception"] else None
        self._calls = []
        self._code = m.override.exitcode
        return m.maybe(lambda: self._calls.append(1)), (), {}

    def post(self, c, r):
        ok = And(_success(self._code), not c.cfg["exception"])
        n = len(self._calls)
        msgs = [a for (stream, a) in c.w.stdout if stream == "<stderr>"]
        return {
            "V.proves_iff_successful": If(ok, 1, 0) == n,
            "V.at_most_once": n <= 1,
            "V.skipping_is_reported": Implies(Not(ok), len(msgs) == 1 and n == 0),
            "canary.V.proves_iff_successful": If(ok, 0, 1) == n,
        }


@register
class OverriderExit(_Proc):
    """ExitOverrider.exit(code): records the code, then delegates to the saved sys.exit once."""
    name = "pysnark.atexitmaybe:ExitOverrider.exit"

    def configs(self, tier):
        return [dict(exitcode=k, default=False) for k in EXITCODES] + [dict(exitcode="zero", default=True)]

    def setup(self, c, cfg):
        m = c.w.modules["pysnark.atexitmaybe"]
        ov = m.override
        self._log = []
        code = _exitcode(cfg["exitcode"])
        self._code = code

        def saved_exit(x=0):
            self._log.append(("delegate", x, ov.exitcode))
            raise SystemExit(x)
        ov._exit = saved_exit
        ov.exitcode = "stale"
        return m.ExitOverrider.exit, (ov,) if cfg["default"] else (ov, code), {}

    def raises(self, c, ov, code=0):
        return [(SystemExit, True)]

    def post_exc(self, c, e, ov, code=0):
        same = lambda a, b: (a is b) if not isinstance(a, int) or isinstance(a, bool) else formula(term(a) == term(b))
        d = {"F.delegated_once": len(self._log) == 1}
        if self._log:
            _, x, seen = self._log[0]
            d["F.delegated_same_code"] = same(x, code)
            d["F.recorded_before_delegating"] = same(seen, code)
        d["F.recorded"] = same(ov.exitcode, code)
        return d

    covers_normal = False


@register
class OverriderHook(_Proc):
    """ExitOverrider.excepthook(tp, ex, tb): records the exception, then delegates."""
    name = "pysnark.atexitmaybe:ExitOverrider.excepthook"

    def configs(self, tier):
        return [dict(kind=k) for k in ("ValueError", "KeyboardInterrupt")]

    def setup(self, c, cfg):
        m = c.w.modules["pysnark.atexitmaybe"]
        ov = m.override
        self._log = []
        ov._excepthook = lambda tp, ex, *a: self._log.append((tp, ex, a, ov.exception))
        ex = {"ValueError": ValueError, "KeyboardInterrupt": KeyboardInterrupt}[cfg["kind"]]("x")
        self._ex = ex
        return m.ExitOverrider.excepthook, (ov, type(ex), ex, None), {}

    def post(self, c, r, ov, tp, ex, tb):
        return {
            "F.recorded": ov.exception is ex,
            "F.delegated_once": len(self._log) == 1 and self._log[0][0] is tp and self._log[0][1] is ex and self._log[0][2] == (tb,),
            "F.recorded_before_delegating": bool(self._log) and self._log[0][3] is ex,
        }


@register
class InstallOverrider(_Proc):
    """Importing atexitmaybe installs the overrider on sys.exit and sys.excepthook and starts clean."""
    name = "pysnark.atexitmaybe:ExitOverrider.__init__"
    probe = True

    def configs(self, tier):
        return [dict()]

    def setup(self, c, cfg):
        m = c.w.modules["pysnark.atexitmaybe"]
        return (lambda: m.override), (), {}

    def post(self, c, ov):
        vs = c.w.vsys
        return {
            "F.sys_exit_overridden": getattr(vs.exit, "__self__", None) is ov,
            "F.excepthook_overridden": getattr(vs.excepthook, "__self__", None) is ov,
            "F.starts_clean": ov.exitcode is None and ov.exception is None,
            "F.saved_originals": callable(ov._exit) and callable(ov._excepthook) and ov._exit is not vs.exit,
        }


@register
class InstallOverriderOverCustomHook(InstallOverrider):
    """... also when the application (a crash reporter, cgitb, an IDE) installed its own sys.excepthook BEFORE the
    library was imported: the overrider still takes the hook over (it delegates to the one it found), otherwise an
    uncaught exception would go unrecorded and the exit hook would prove a crashed run."""
    name = "pysnark.atexitmaybe:ExitOverrider.__init__#custom_excepthook"

    def world_setup(self, w):
        def app_hook(tp, ex, *a):
            w.stdout.append(("<stderr>", ("app hook", tp.__name__)))
        self._app_hook = app_hook
        w.vsys.excepthook = app_hook

    def post(self, c, ov):
        d = InstallOverrider.post(self, c, ov)
        d["F.delegates_to_the_hook_it_found"] = ov._excepthook is self._app_hook
        return d


@register
class Final(_Proc):
    """runtime.final(): autoprove on -> backend.prove() exactly once; autoprove off -> nothing is
    produced and the hook does not fail."""
    name = "pysnark.runtime:final"
    layer = "gadget"
    history_ok = False        # "exactly once": an earlier call of final() IS a second proving step
    modules = ("pysnark.runtime",)

    def configs(self, tier):
        # ... whatever state the script left the run-time switches in: checks off (ignore_errors(True), as
        # examples/sudoku.py leaves it), a region with a dead guard still open at sys.exit(0)
        # ... and a separate keygen/prove/verify step requested on the command line (runtime.operation) while the
        # backend in effect has no such step (only the libsnark backends define process_snark)
        return [dict(autoprove=a, ie=i, open_guard=g) for a in (True, False) for i in (False, True) for g in (False, True)] + \
               [dict(autoprove=a, ie=False, open_guard=False, operation=o) for a in (True, False) for o in ("prove", "keygen", "")]

    def setup(self, c, cfg):
        rt = c.rt
        rt.autoprove = cfg["autoprove"]
        rt._ignore_errors = cfg["ie"]
        if "operation" in cfg:
            rt.operation = cfg["operation"]
        if cfg["open_guard"]:
            G = c.operand("left_open")
            rt.guard = G
            rt.LinComb.ONE = G
        self._n0 = len([x for x in c.w.stdout if x == ("<ghost>", ("prove",))])
        return rt.final, (), {}

    def post(self, c, r):
        n = len([x for x in c.w.stdout if x == ("<ghost>", ("prove",))]) - self._n0
        return {"V.proves_iff_autoprove": n == (1 if c.cfg["autoprove"] else 0),
                "F.registered_at_exit": any(getattr(fn, "__qualname__", "").endswith("maybe_") for fn, a, k in c.w.atexit)}


def _final_replay(self, ob, cfg):
    """CPython runs the real runtime.final() in the state of the configuration, with the backend's proving step
    replaced by a counter (nothing else is touched)."""
    import json, os, subprocess, sys, tempfile, shutil
    from pyvc.replay import REPO
    tmp = tempfile.mkdtemp(prefix="pyvc_final_")
    try:
        script = r'''
import sys, json, atexit
sys.path.insert(0, %r)
import pysnark.snarkjsbackend as be
import pysnark.runtime as rt
atexit._clear()
cfg = json.loads(%r)
calls = []
be.prove = lambda *a, **k: calls.append(1)
rt.autoprove = cfg["autoprove"]
rt._ignore_errors = cfg["ie"]
if cfg.get("operation") is not None:
    rt.operation = cfg["operation"]
if cfg["open_guard"]:
    g = rt.PrivVal(0)
    rt.guard = g
    rt.LinComb.ONE = g
out = {}
try:
    rt.final()
    out["outcome"] = "return"
except BaseException as e:
    out["outcome"] = "raise"; out["exception"] = type(e).__name__
out["prove_calls"] = len(calls)
out["expected_prove_calls"] = 1 if cfg["autoprove"] else 0
out["confirmed"] = (out["outcome"] == "return" and out["prove_calls"] != out["expected_prove_calls"]) if cfg["clause"].startswith("V.") else out["outcome"] == "raise"
json.dump(out, open("out.json", "w"))
''' % (REPO, json.dumps(dict({k: cfg.get(k) for k in ("autoprove", "ie", "open_guard", "operation")}, clause=ob["name"])))
        open(os.path.join(tmp, "probe.py"), "w").write(script)
        env = dict(os.environ)
        env.pop("PYSNARK_BACKEND", None)
        pr = subprocess.run([sys.executable, "probe.py"], cwd=tmp, capture_output=True, text=True, timeout=60, env=env)
        if not os.path.exists(os.path.join(tmp, "out.json")):
            return dict(confirmed=False, replay_error=(pr.stdout + pr.stderr)[-1200:])
        return json.load(open(os.path.join(tmp, "out.json")))
    finally:
        shutil.rmtree(tmp, ignore_errors=True)


Final.native_replay = lambda self, ob, cfg: _final_replay(self, ob, cfg) if ob["name"] == "V.proves_iff_autoprove" or ob["name"].startswith("R.unexpected_exception") else dict(confirmed=False, note="no native replay for this clause")
