"""Contracts for pysnark/fixedpoint.py (C14).

With resolution r (R = 2^r) a fixed-point value v is represented by the integer rep = v*R.
The specs below are written from the property statement on representations:
    a + b, a - b, -a, a * int      exact
    a * b                          floor(rep a * rep b / R)
    a / b                          floor(rep a * R / rep b)
    a // b, a % b                  Python's floor division / modulo of the represented numbers
    comparisons                    order of the representations at the same scale
    val()                          rep / R
"The operation raises" is an accepted outcome for C14, so these contracts carry no R clauses:
every *returned* value must equal the spec."""
import z3
from .common import *
from pyvc.sym import idivmod, idiv_scale
from pyvc.interp import SymRat

# float constants: a fraction, a negative fraction, a whole number, and a representable number that is within 1e-9
# (relative) of a whole number without being one (float shortcuts such as math.isclose / round() must not treat it as whole)
# ... and one whose scaled representation is an ODD 53-bit integer (2^52 + 1): the last place where float arithmetic on
# the scaled value (adding 0.5, say) is still exact for its neighbours but not for it
FLOATS = (1.5, -0.75, 3.0, 268435456.125, float(2 ** 52 + 1) / 8)
RES = (0, 3)                  # resolutions (quick); thorough adds 8


def _rep_float(f, r):
    v = f * (1 << r)
    assert v == int(v), "test float not representable at this resolution"
    return int(v)


def _operand(c, kind, r):
    """returns (python operand, representation term at scale R)"""
    R = 1 << r
    if kind == "fxp":
        y = c.operand("y")
        return c.mk_fxp(y), c.v(y)
    if kind == "lc":
        y = c.operand("y")
        return y, c.v(y) * R
    if kind == "bool":
        y = c.operand_bool("y")
        return y, c.v(y) * R
    if kind == "int":
        k = c.public_int("k")
        return k, term(k) * R
    if kind.startswith("float"):
        f = FLOATS[int(kind[5:])]
        return f, z3.IntVal(_rep_float(f, r))
    raise ValueError(kind)


def _floordiv(a, b):
    return idivmod(a, b)[0]


def _mod(a, b):
    return idivmod(a, b)[1]


class _Fxp(Contract):
    modules = ("pysnark.runtime", "pysnark.boolean", "pysnark.fixedpoint", "pysnark.branching")
    vprops = ("C14",)
    sprops = ()
    eprops = ()
    raises_unspecified = True
    guard_relevant = False        # the guard facets of these wrappers are those of the LinComb operations they call
    op = None
    kinds = ("fxp", "lc", "int", "float0", "float1", "float2", "float3", "float4")
    reflected = False

    def use_stub(self, c, *a, **k):
        return False

    def configs(self, tier):
        out = []
        for r in (RES if tier == "quick" else RES + (8,)):
            for m in ("plain", "g1", "g0"):      # error checks on: with errors ignored, invalid inputs yield unspecified values
                for k in self.kinds:
                    if k.startswith("float") and FLOATS[int(k[5:])] * (1 << r) != int(FLOATS[int(k[5:])] * (1 << r)):
                        continue
                    # a negative divisor, or one far beyond the comparison width, is always refused
                    neg_div = k in ("float1", "float3", "float4") and self.op in ("__truediv__", "__floordiv__", "__mod__")
                    out.append(dict(mode=m, kind=k, res=r, bits=r + 4, **({"raises_only": True} if neg_div else {})))
        return out

    def setup(self, c, cfg):
        apply_mode(c, cfg["mode"], bitlength=cfg["bits"])
        fx = c.w.modules["pysnark.fixedpoint"]
        fx.resolution = cfg["res"]
        x = c.operand("x")
        self._x = c.mk_fxp(x)
        y, yrep = _operand(c, cfg["kind"], cfg["res"])
        self._y, self._yrep = y, yrep
        return getattr(c.LinCombFxp, self.op), (self._x, y), {}

    def spec(self, X, Y, R, k):
        raise NotImplementedError

    def post(self, c, r, x, y):
        R = 1 << c.cfg["res"]
        X, Y = c.v(x), self._yrep
        if r is NotImplemented:
            return {"V.not_implemented": False}
        if isinstance(y, int) and not isinstance(y, bool):
            idiv_scale(X, term(y), R)          # lemma: floor(X*R / (k*R)) = floor(X / k)
        want = self.spec(X, Y, R, y)
        d = {"V.type": isinstance(r, c.LinCombFxp)}
        if d["V.type"]:
            d["V.value"] = Implies(isg(c), Eq(c.v(r), want))
            d["V.inv"] = c.inv(r)
        return d


def _mk(name, op, spec, kinds=None, doc=""):
    attrs = dict(name="pysnark.fixedpoint:LinCombFxp." + op, op=op, spec=staticmethod(spec), __doc__=doc)
    if kinds:
        attrs["kinds"] = kinds
    return register(type(name, (_Fxp,), attrs))


_mk("FxpAdd", "__add__", lambda X, Y, R, y: X + Y, doc="a + b exact")
_mk("FxpSub", "__sub__", lambda X, Y, R, y: X - Y, doc="a - b exact")
_mk("FxpRSub", "__rsub__", lambda X, Y, R, y: Y - X, kinds=("lc", "int", "float0"), doc="b - a exact")


def _mul_spec(X, Y, R, y):
    if isinstance(y, int):
        return imul(X, term(y))                # multiplication by an integer is exact
    return _floordiv(imul(X, Y), z3.IntVal(R))


def _mul_spec_lc(X, Y, R, y):
    return _floordiv(imul(X, Y), z3.IntVal(R))


_mk("FxpMul", "__mul__", _mul_spec, doc="a * int exact; a * b = floor(rep a * rep b / R)")
_mk("FxpTrueDiv", "__truediv__", lambda X, Y, R, y: _floordiv(X * R, Y), doc="a / b = floor(rep a * R / rep b)")
_mk("FxpFloorDiv", "__floordiv__", lambda X, Y, R, y: _floordiv(X, Y) * R, doc="a // b = floor(a / b), an integer")
_mk("FxpMod", "__mod__", lambda X, Y, R, y: _mod(X, Y), doc="a % b = a - b * floor(a / b)")


@register
class FxpDivMod(_Fxp):
    """divmod(a, b) = (a // b, a % b): the SAME two numbers the two operators give -- the quotient an integer in
    fixed-point representation (floor(a/b) * R), the remainder unscaled."""
    name = "pysnark.fixedpoint:LinCombFxp.__divmod__"
    op = "__divmod__"

    def configs(self, tier):
        return [dict(cfg, **({"raises_only": True} if cfg["kind"] in ("float1", "float3", "float4") else {}))
                for cfg in _Fxp.configs(self, tier)]

    def post(self, c, r, x, y):
        R = 1 << c.cfg["res"]
        X, Y = c.v(x), self._yrep
        if r is NotImplemented:
            return {"V.not_implemented": False}
        if isinstance(y, int) and not isinstance(y, bool):
            idiv_scale(X, term(y), R)
        ok = isinstance(r, tuple) and len(r) == 2 and all(isinstance(e, c.LinCombFxp) for e in r)
        d = {"V.type": ok}
        if ok:
            quo, rem = r
            d["V.quotient"] = Implies(isg(c), Eq(c.v(quo), _floordiv(X, Y) * R))
            d["V.remainder"] = Implies(isg(c), Eq(c.v(rem), _mod(X, Y)))
            d["V.inv"] = And(c.inv(quo), c.inv(rem))
        return d
_mk("FxpRTrueDiv", "__rtruediv__", lambda X, Y, R, y: _floordiv(Y * R, X), kinds=("lc", "int", "float0"), doc="b / a")
_mk("FxpRFloorDiv", "__rfloordiv__", lambda X, Y, R, y: _floordiv(Y, X) * R, kinds=("lc", "int", "float0"), doc="b // a")
_mk("FxpRMod", "__rmod__", lambda X, Y, R, y: _mod(Y, X), kinds=("lc", "int", "float0"), doc="b % a")


class _FxpCmp(_Fxp):
    rel = None

    def post(self, c, r, x, y):
        X, Y = c.v(x), self._yrep
        d = {"V.type": isinstance(r, c.LinCombBool)}
        if d["V.type"]:
            d["V.value"] = Implies(isg(c), Eq(c.v(r), If(self.rel(X, Y), 1, 0)))
            d["V.inv"] = c.inv(r)
        return d


for _n, _op, _rel in (("Lt", "__lt__", lambda a, b: a < b), ("Le", "__le__", lambda a, b: a <= b),
                      ("Gt", "__gt__", lambda a, b: a > b), ("Ge", "__ge__", lambda a, b: a >= b),
                      ("Eq", "__eq__", lambda a, b: a == b), ("Ne", "__ne__", lambda a, b: a != b)):
    register(type("FxpCmp" + _n, (_FxpCmp,), dict(name="pysnark.fixedpoint:LinCombFxp." + _op, op=_op, rel=staticmethod(_rel),
                                                 __doc__="comparison = order of the representations at the same scale")))


@register
class FxpNeg(_Fxp):
    """-a exact"""
    name = "pysnark.fixedpoint:LinCombFxp.__neg__"
    op = "__neg__"
    kinds = ("none",)

    def configs(self, tier):
        return [dict(mode=m, kind="none", res=r, bits=4) for r in RES for m in ("plain", "g0")]

    def setup(self, c, cfg):
        apply_mode(c, cfg["mode"], bitlength=cfg["bits"])
        c.w.modules["pysnark.fixedpoint"].resolution = cfg["res"]
        self._x = c.mk_fxp(c.operand("x"))
        return c.LinCombFxp.__neg__, (self._x,), {}

    def post(self, c, r, x):
        return {"V.type": isinstance(r, c.LinCombFxp), "V.value": Eq(c.v(r), -c.v(x)), "V.inv": c.inv(r)}


@register
class FxpVal(_Fxp):
    """val(): rep / R, and one public output tied to the wire"""
    name = "pysnark.fixedpoint:LinCombFxp.val"
    op = "val"
    vprops = ("C14", "C04")     # the number reported is the opened wire's value over R, at whatever the resolution is NOW

    def configs(self, tier):
        return [dict(mode=m, kind="none", res=r, bits=4) for r in RES + (8,) for m in ("plain", "g0")]

    def setup(self, c, cfg):
        apply_mode(c, cfg["mode"], bitlength=cfg["bits"])
        c.w.modules["pysnark.fixedpoint"].resolution = cfg["res"]
        self._x = c.mk_fxp(c.operand("x"))
        return c.LinCombFxp.val, (self._x,), {}

    def post(self, c, r, x):
        R = 1 << c.cfg["res"]
        ok = isinstance(r, SymRat)
        return {"V.kind": ok, "V.value": ok and And(r.num == c.v(x), r.den == R)}


class _FxpAlloc(_Fxp):
    fn = None

    def configs(self, tier):
        return [dict(mode="plain", kind=k, res=r, bits=4) for r in RES for k in ("int", "float0", "float1", "raw")
                if not (k.startswith("float") and FLOATS[int(k[5:])] * (1 << r) != int(FLOATS[int(k[5:])] * (1 << r)))]

    def setup(self, c, cfg):
        apply_mode(c, cfg["mode"], bitlength=cfg["bits"])
        fx = c.w.modules["pysnark.fixedpoint"]
        fx.resolution = cfg["res"]
        R = 1 << cfg["res"]
        if cfg["kind"] == "int":
            v = SymInt(z3.Int("s_v"))
            self._want = v.t * R
            return getattr(fx, self.fn), (v,), {}
        if cfg["kind"] == "raw":
            v = SymInt(z3.Int("s_v"))
            self._want = v.t
            return getattr(fx, self.fn), (v, False), {}
        f = FLOATS[int(cfg["kind"][5:])]
        self._want = z3.IntVal(int(f * R))
        return getattr(fx, self.fn), (f,), {}

    def post(self, c, r, *a):
        return {"V.type": isinstance(r, c.LinCombFxp), "V.value": Eq(c.v(r), self._want), "V.inv": c.inv(r)}


@register
class PrivValFxpC(_FxpAlloc):
    """PrivValFxp(v): representation v*R"""
    name = "pysnark.fixedpoint:PrivValFxp"
    fn = "PrivValFxp"
    witness_args = (0,)


@register
class PubValFxpC(_FxpAlloc):
    name = "pysnark.fixedpoint:PubValFxp"
    fn = "PubValFxp"
    witness_args = (0,)


@register
class EnsureFxp(_Fxp):
    """_ensurefxp(v): the operand brought to scale R"""
    name = "pysnark.fixedpoint:LinCombFxp._ensurefxp"
    op = "_ensurefxp"

    def configs(self, tier):
        return [dict(mode=m, kind=k, res=r, bits=4) for r in RES for m in ("plain", "g0") for k in ("fxp", "lc", "bool", "int", "float0")
                if not (k == "float0" and r == 0)]

    def setup(self, c, cfg):
        apply_mode(c, cfg["mode"], bitlength=cfg["bits"])
        c.w.modules["pysnark.fixedpoint"].resolution = cfg["res"]
        y, yrep = _operand(c, cfg["kind"], cfg["res"])
        self._yrep = yrep
        return c.LinCombFxp._ensurefxp, (y,), {}

    def post(self, c, r, *a):
        y = a[-1]
        d = {"V.type": isinstance(r, c.LinCombFxp)}
        if d["V.type"]:
            # a plain number enters through ConstVal (the constant-one wire), also inside a guard
            d["V.value"] = Eq(c.v(r), self._yrep)
            d["V.inv"] = c.inv(r)
        return d



# ---------------------------------------------------------------------------
# a plain secret integer on the LEFT of a comparison with a fixed-point value:
# the LinComb comparison runs first (it does not decline), so it must scale correctly
# ---------------------------------------------------------------------------

class _LcVsFxp(Contract):
    modules = ("pysnark.runtime", "pysnark.boolean", "pysnark.fixedpoint", "pysnark.branching")
    vprops = ("C14",)
    sprops = eprops = ()
    raises_unspecified = True
    guard_relevant = False
    rel = None
    op = None

    def use_stub(self, c, *a):
        return False

    def configs(self, tier):
        return [dict(mode="plain", res=r, bits=6) for r in RES]

    def setup(self, c, cfg):
        apply_mode(c, cfg["mode"], bitlength=cfg["bits"])
        c.w.modules["pysnark.fixedpoint"].resolution = cfg["res"]
        return getattr(c.LinComb, self.op), (c.operand("x"), c.mk_fxp(c.operand("y"))), {}

    def post(self, c, r, x, y):
        R = 1 << c.cfg["res"]
        if r is NotImplemented:
            return {}          # declining is fine: Python then asks the fixed-point operand
        return {"V.value": Eq(c.v(r), If(self.rel(c.v(x) * R, c.v(y)), 1, 0))}


for _n, _op, _rel in (("Lt", "__lt__", lambda a, b: a < b), ("Le", "__le__", lambda a, b: a <= b),
                      ("Gt", "__gt__", lambda a, b: a > b), ("Ge", "__ge__", lambda a, b: a >= b),
                      ("Eq", "__eq__", lambda a, b: a == b), ("Ne", "__ne__", lambda a, b: a != b)):
    register(type("LcVsFxp" + _n, (_LcVsFxp,), dict(name="pysnark.runtime:LinComb.%s#fxp" % _op, op=_op, rel=staticmethod(_rel),
                                                   __doc__="LinComb %s LinCombFxp: order of the represented numbers" % _op)))


class _LcAssertVsFxp(Contract):
    """x.assert_<rel>(f) for a plain secret integer x and a fixed-point f: either refused (the pinned tree raises
    RuntimeError: a fixed-point value is no operand of an integer assertion) or, if it returns, the relation holds
    between the NUMBERS (x against f's representation / 2^r) -- never between x and the raw representation."""
    modules = ("pysnark.runtime", "pysnark.boolean", "pysnark.fixedpoint", "pysnark.branching")
    vprops = ("C14", "C03")
    sprops = eprops = ()
    tprops = ()
    skip_facets = "TN"
    raises_unspecified = True
    covers_normal = False
    guard_relevant = False
    rel = None
    op = None

    def use_stub(self, c, *a, **k):
        return False

    def configs(self, tier):
        return [dict(mode="plain", res=r, bits=6) for r in RES if r > 0]

    def setup(self, c, cfg):
        apply_mode(c, cfg["mode"], bitlength=cfg["bits"])
        c.w.modules["pysnark.fixedpoint"].resolution = cfg["res"]
        return getattr(c.LinComb, self.op), (c.operand("x"), c.mk_fxp(c.operand("y"))), {}

    def post(self, c, r, x, y, *a):
        R = 1 << c.cfg["res"]
        return {"V.relation_between_the_numbers": self.rel(c.v(x) * R, c.v(y))}


for _op, _rel in (("assert_lt", lambda a, b: a < b), ("assert_le", lambda a, b: a <= b), ("assert_gt", lambda a, b: a > b),
                  ("assert_ge", lambda a, b: a >= b), ("assert_eq", lambda a, b: a == b), ("assert_ne", lambda a, b: a != b)):
    register(type("LcAssertVsFxp" + _op, (_LcAssertVsFxp,), dict(name="pysnark.runtime:LinComb.%s#fxp" % _op, op=_op, rel=staticmethod(_rel))))


# ---------------------------------------------------------------------------
# assertions, tests and shifts of LinCombFxp (delegations to the representation)
# ---------------------------------------------------------------------------

class _FxpAssert(_Fxp):
    rel = None
    sprops = ("C03", "C14")
    eprops = ("C03", "C14")
    vprops = ("C03", "C14")
    raises_unspecified = False
    covers_normal = False
    kinds = ("fxp", "int", "float0")

    def configs(self, tier):
        return [dict(mode=m, kind=k, res=r, bits=5) for r in (3,) for m in ("plain", "ie") for k in self.kinds]

    def pre(self, c, x, y, err=None):
        return [(1 << (c.bitlength + 1)) < c.p]

    def raises(self, c, x, y, err=None):
        X, Y = c.v(x), self._yrep
        d = self.diff(X, Y)
        bad = Not(self.rel(X, Y)) if self.diff is None else Or(Not(self.rel(X, Y)), d >= (1 << c.bitlength))
        out = [(AssertionError, And(Not(ie(c)), bad))]
        if self.neg:
            out.append((ZeroDivisionError, And(isg(c), X != Y, (X - Y) % c.p == 0)))
        return out

    neg = False

    def post(self, c, r, x, y, err=None):
        X, Y = c.v(x), self._yrep
        tied = c.tied(x) if not hasattr(y, "lc") else And(c.tied(x), c.tied(y))
        q = c.p // 4
        sm = And(X > -q, X < q, Y > -q, Y < q)
        return {"E.enforced": Implies(And(on(c), tied, sm), self.rel(X, Y))}


for _n, _rel, _diff, _neg in (("assert_lt", lambda a, b: a < b, lambda a, b: b - a - 1, False), ("assert_le", lambda a, b: a <= b, lambda a, b: b - a, False),
                              ("assert_gt", lambda a, b: a > b, lambda a, b: a - b - 1, False), ("assert_ge", lambda a, b: a >= b, lambda a, b: a - b, False),
                              ("assert_eq", lambda a, b: a == b, lambda a, b: z3.IntVal(0), False), ("assert_ne", lambda a, b: a != b, lambda a, b: z3.IntVal(0), True)):
    register(type("FxpAssert" + _n, (_FxpAssert,), dict(name="pysnark.fixedpoint:LinCombFxp." + _n, op=_n, rel=staticmethod(_rel),
                                                       diff=staticmethod(_diff), neg=_neg,
                                                       __doc__="fixed-point %s: the relation of the representations is enforced" % _n)))


@register
class FxpShift(_Fxp):
    """a << k, a >> k on the representation"""
    name = "pysnark.fixedpoint:LinCombFxp.__lshift__"
    op = "__lshift__"
    kinds = ("none",)

    def configs(self, tier):
        return [dict(mode="plain", kind="none", res=3, bits=5, k=k) for k in (0, 2)]

    def setup(self, c, cfg):
        apply_mode(c, cfg["mode"], bitlength=cfg["bits"])
        c.w.modules["pysnark.fixedpoint"].resolution = cfg["res"]
        self._x = c.mk_fxp(c.operand("x"))
        return c.LinCombFxp.__lshift__, (self._x, cfg["k"]), {}

    def post(self, c, r, x, k):
        return {"V.type": isinstance(r, c.LinCombFxp), "V.value": Eq(c.v(r), c.v(x) * (1 << k)), "V.inv": c.inv(r)}


# ---------------------------------------------------------------------------
# boolean operands on either side, at OPERATOR level: `fxp OP bool` and `bool OP fxp` go through Python's
# binary-operator dispatch (LinCombFxp.__op__ declines a LinCombBool, LinCombBool's own operators hand the
# LinComb on, the reflected fixed-point operator finally answers).  Whatever route is taken, a returned value
# must be the spec on representations with rep(bool) = b*R.
# ---------------------------------------------------------------------------
import operator as _operator

_BOOL_OPS = {
    "add": (_operator.add, lambda A, B, R: A + B, "fxp"),
    "sub": (_operator.sub, lambda A, B, R: A - B, "fxp"),
    "mul": (_operator.mul, lambda A, B, R: _floordiv(imul(A, B), z3.IntVal(R)), "fxp"),
    "truediv": (_operator.truediv, lambda A, B, R: _floordiv(A * R, B), "fxp"),
    "floordiv": (_operator.floordiv, lambda A, B, R: _floordiv(A, B) * R, "fxp"),
    "mod": (_operator.mod, lambda A, B, R: _mod(A, B), "fxp"),
    "lt": (_operator.lt, lambda A, B, R: If(A < B, 1, 0), "bool"),
    "le": (_operator.le, lambda A, B, R: If(A <= B, 1, 0), "bool"),
    "gt": (_operator.gt, lambda A, B, R: If(A > B, 1, 0), "bool"),
    "ge": (_operator.ge, lambda A, B, R: If(A >= B, 1, 0), "bool"),
    "eq": (_operator.eq, lambda A, B, R: If(A == B, 1, 0), "bool"),
    "ne": (_operator.ne, lambda A, B, R: If(A != B, 1, 0), "bool"),
}


@register
class FxpBoolCells(Contract):
    """`fxp OP bool` / `bool OP fxp` for every binary operator: the returned value is the spec on representations
    (rep(bool) = b*R), or the expression raises."""
    name = "pysnark.fixedpoint:LinCombFxp._ensurefxp#boolean_operand_cells"
    modules = _Fxp.modules
    vprops = ("C14",)
    sprops = eprops = tprops = cprops = ()
    raises_unspecified = True
    guard_relevant = False
    probe = True                      # the subject is an operator expression, not one function

    def use_stub(self, c, *a, **k):
        return False

    # combinations that are refused on the pinned tree ("or the operation raises"): LinCombBool's comparison operators
    # insist on a boolean right operand, and fxp / // % bool reach LinComb.__divmod__ with a LinCombBool divisor
    REFUSED = {("truediv", "fxp_bool"), ("floordiv", "fxp_bool"), ("mod", "fxp_bool"), ("lt", "bool_fxp"), ("le", "bool_fxp"),
               ("gt", "bool_fxp"), ("ge", "bool_fxp"), ("eq", "bool_fxp"), ("ne", "bool_fxp")}

    def configs(self, tier):
        return [dict(mode="plain", op=o, side=s, res=r, bits=r + 4, **({"raises_only": True} if (o, s) in self.REFUSED else {}))
                for o in _BOOL_OPS for s in ("fxp_bool", "bool_fxp") for r in (RES if tier == "quick" else RES + (8,))]

    def setup(self, c, cfg):
        apply_mode(c, cfg["mode"], bitlength=cfg["bits"])
        c.w.modules["pysnark.fixedpoint"].resolution = cfg["res"]
        x = c.mk_fxp(c.operand("x"))
        b = c.operand_bool("b")
        fn = _BOOL_OPS[cfg["op"]][0]
        return (lambda u, v: fn(u, v)), ((x, b) if cfg["side"] == "fxp_bool" else (b, x)), {}

    def post(self, c, r, u, v):
        R = 1 << c.cfg["res"]
        rep = lambda o: c.v(o) if isinstance(o, c.LinCombFxp) else c.v(o) * R
        A, B = rep(u), rep(v)
        _, spec, kind = _BOOL_OPS[c.cfg["op"]]
        if r is NotImplemented:
            return {"V.declined_means_TypeError": True}
        want = spec(A, B, R)
        if kind == "fxp":
            d = {"V.type": isinstance(r, c.LinCombFxp)}
        else:
            d = {"V.type": isinstance(r, c.LinCombBool)}
        if d["V.type"]:
            d["V.value"] = Eq(c.v(r), want)
            d["V.inv"] = c.inv(r)
        return d


# ---------------------------------------------------------------------------
# unary tests, assertions and helpers of LinCombFxp: one-line delegations to the representation.  Their contracts
# ARE the contracts of the LinComb methods they delegate to (same raise conditions, same S/E clauses), stated on
# the fixed-point object: a delegation that forwards to a different method, drops an argument or returns
# something else fails the inherited clauses.
# ---------------------------------------------------------------------------
from . import runtime_c as _rc


class _FxpUnary(_Fxp):
    kinds = ("none",)
    raises_unspecified = False

    def configs(self, tier):
        return [dict(mode=m, kind="none", res=3, bits=5) for m in ("plain", "ie", "g1", "g0")]

    def setup(self, c, cfg):
        apply_mode(c, cfg["mode"], bitlength=cfg["bits"])
        c.w.modules["pysnark.fixedpoint"].resolution = cfg["res"]
        self._x = c.mk_fxp(c.operand("x"))
        return getattr(c.LinCombFxp, self.op), (self._x,), {}

    def pre(self, c, x):
        return [(1 << (c.bitlength + 1)) < c.p]


def _delegation(base, owner, method, props, modes=("plain", "ie", "g1", "g0"), bits=5):
    """Contract of `owner.method(x)` := contract of the LinComb method `base` describes, on the wrapped operand."""
    wrap = {"LinCombFxp": lambda c, x: c.mk_fxp(x), "LinCombBool": lambda c, x: c.mk_bool(x)}[owner]
    module = {"LinCombFxp": "pysnark.fixedpoint", "LinCombBool": "pysnark.boolean"}[owner]

    class D(base):
        name = "%s:%s.%s" % (module, owner, method)
        __doc__ = "%s.%s(): delegation; inherits the contract of %s" % (owner, method, base.name)
        modules = _Fxp.modules
        vprops = tuple(sorted(set(base.vprops) | set(props)))
        # S/E clauses count for the soundness/assertion properties only (C02, C03, C14, C16), never for C05
        sprops = tuple(sorted(set(base.sprops) | ((set(props) - {"C05"}) if base.sprops else set())))
        eprops = tuple(sorted(set(base.eprops) | ((set(props) - {"C05"}) if base.eprops else set())))
        type_errors = ()

        def configs(self, tier):
            return [dict(mode=m, bits=bits, res=3) for m in modes]

        def setup(self, c, cfg):
            apply_mode(c, cfg["mode"], bitlength=cfg["bits"])
            c.w.modules["pysnark.fixedpoint"].resolution = cfg["res"]
            if owner == "LinCombBool":
                x = c.operand_bool("x")
            else:
                x = wrap(c, c.operand("x"))
            return getattr(getattr(c, owner), method), (x,), {}

        def use_stub(self, c, *a, **k):
            return False
    D.__name__ = "%s_%s" % (owner, method)
    return register(D)


_delegation(_rc.CheckZero, "LinCombFxp", "check_zero", ("C14",))
_delegation(_rc.CheckNonzero, "LinCombFxp", "check_nonzero", ("C14",))
_delegation(_rc.CheckPositive, "LinCombFxp", "check_positive", ("C14",))
_delegation(_rc.AssertZero, "LinCombFxp", "assert_zero", ("C14", "C03"), modes=("plain", "ie", "g1"))
_delegation(_rc.AssertNonzero, "LinCombFxp", "assert_nonzero", ("C14", "C03"), modes=("plain", "ie", "g1"))
_delegation(_rc.AssertPositive, "LinCombFxp", "assert_positive", ("C14", "C03"), modes=("plain", "ie", "g1"))
_delegation(_rc.CheckZero, "LinCombBool", "check_zero", ("C05",))
_delegation(_rc.CheckPositive, "LinCombBool", "check_positive", ("C05",))
_delegation(_rc.AssertZero, "LinCombBool", "assert_zero", ("C03",), modes=("plain", "ie", "g1"))
_delegation(_rc.AssertNonzero, "LinCombBool", "assert_nonzero", ("C03",), modes=("plain", "ie", "g1"))
_delegation(_rc.AssertPositive, "LinCombBool", "assert_positive", ("C03",), modes=("plain", "ie", "g1"))
_delegation(_rc.Abs, "LinCombBool", "__abs__", ("C05",), modes=("plain", "g1"))


@register
class FxpPos(_FxpUnary):
    name = "pysnark.fixedpoint:LinCombFxp.__pos__"
    op = "__pos__"

    def configs(self, tier):
        return [dict(mode="plain", kind="none", res=3, bits=5)]

    def post(self, c, r, x):
        return {"V.same": r is x}


@register
class FxpAbs(_FxpUnary):
    """abs(x): |representation| (or raises)"""
    name = "pysnark.fixedpoint:LinCombFxp.__abs__"
    op = "__abs__"
    raises_unspecified = True

    def configs(self, tier):
        return [dict(mode=m, kind="none", res=r, bits=r + 4) for r in RES for m in ("plain", "g1")]

    def post(self, c, r, x):
        ok = isinstance(r, c.LinCombFxp)
        X = c.v(x)
        return {"V.type": ok, "V.value": Implies(isg(c), Eq(c.v(r), If(X >= 0, X, -X))) if ok else False, "V.inv": c.inv(r) if ok else False}


@register
class FxpRShift(_Fxp):
    """a >> k: floor(representation / 2^k)  (or raises)"""
    name = "pysnark.fixedpoint:LinCombFxp.__rshift__"
    op = "__rshift__"
    kinds = ("none",)

    def configs(self, tier):
        return [dict(mode="plain", kind="none", res=3, bits=5, k=k) for k in (0, 2)]

    def setup(self, c, cfg):
        apply_mode(c, cfg["mode"], bitlength=cfg["bits"])
        c.w.modules["pysnark.fixedpoint"].resolution = cfg["res"]
        self._x = c.mk_fxp(c.operand("x"))
        return c.LinCombFxp.__rshift__, (self._x, cfg["k"]), {}

    def post(self, c, r, x, k):
        from pyvc.sym import shr
        ok = isinstance(r, c.LinCombFxp)
        return {"V.type": ok, "V.value": Eq(c.v(r), shr(c.v(x), k)) if ok else False, "V.inv": c.inv(r) if ok else False}


@register
class FxpPow(_Fxp):
    """a ** k for a public k >= 0: k = 0 -> 1.0, k = 1 -> a, k = 2 -> floor(rep a * rep a / R) (or raises)"""
    name = "pysnark.fixedpoint:LinCombFxp.__pow__"
    op = "__pow__"
    kinds = ("none",)

    def configs(self, tier):
        return [dict(mode="plain", kind="none", res=r, bits=2 * r + 4, k=k, **({"raises_only": True} if k < 0 else {}))
                for r in RES for k in (-1, 0, 1, 2)] + [dict(mode="plain", kind="none", res=3, bits=10, k=2, mod=5, raises_only=True)]

    raises_unspecified = False

    def raises(self, c, x, k, mod=None):
        return [(ValueError, bool(mod is not None or k < 0))]

    def setup(self, c, cfg):
        apply_mode(c, cfg["mode"], bitlength=cfg["bits"])
        c.w.modules["pysnark.fixedpoint"].resolution = cfg["res"]
        self._x = c.mk_fxp(c.operand("x"))
        if "mod" in cfg:
            return c.LinCombFxp.__pow__, (self._x, cfg["k"], cfg["mod"]), {}
        return c.LinCombFxp.__pow__, (self._x, cfg["k"]), {}

    def post(self, c, r, x, k, mod=None):
        R = 1 << c.cfg["res"]
        X = c.v(x)
        ok = isinstance(r, c.LinCombFxp)
        d = {"V.type": ok}
        if ok:
            want = {0: z3.IntVal(R), 1: X, 2: _floordiv(imul(X, X), z3.IntVal(R))}[k]
            d["V.value"] = modeq(c.v(r), want, c.p)
            d["V.inv"] = c.inv(r)
        return d


@register
class FxpAssertRange(_Fxp):
    """x.assert_range(lo, hi): lo <= x < hi on the represented numbers is enforced (bounds of any operand kind)"""
    name = "pysnark.fixedpoint:LinCombFxp.assert_range"
    op = "assert_range"
    sprops = ("C03", "C14")
    eprops = ("C03", "C14")
    vprops = ("C03", "C14")
    covers_normal = False
    raises_unspecified = True

    def configs(self, tier):
        return [dict(mode=m, kind=k, res=3, bits=6) for m in ("plain", "ie") for k in ("int", "fxp", "float0")]

    def setup(self, c, cfg):
        apply_mode(c, cfg["mode"], bitlength=cfg["bits"])
        c.w.modules["pysnark.fixedpoint"].resolution = cfg["res"]
        R = 1 << cfg["res"]
        self._x = c.mk_fxp(c.operand("x"))
        if cfg["kind"] == "int":
            lo, hi = c.public_int("lo"), c.public_int("hi")
            self._lo, self._hi = term(lo) * R, term(hi) * R
        elif cfg["kind"] == "fxp":
            l, h = c.operand("lo"), c.operand("hi")
            lo, hi = c.mk_fxp(l), c.mk_fxp(h)
            self._lo, self._hi = c.v(l), c.v(h)
        else:
            lo, hi = -0.75 if (1 << cfg["res"]) >= 4 else -1.0, 1.5
            self._lo, self._hi = z3.IntVal(int(lo * R)), z3.IntVal(int(hi * R))
        self._ops = [o for o in (lo, hi) if hasattr(o, "lc")]
        return c.LinCombFxp.assert_range, (self._x, lo, hi), {}

    def pre(self, c, x, lo, hi):
        return [(1 << (c.bitlength + 1)) < c.p]

    def post(self, c, r, x, lo, hi):
        X = c.v(x)
        q = c.p // 4
        sm = And(X > -q, X < q, self._lo > -q, self._lo < q, self._hi > -q, self._hi < q)
        tied = And(c.tied(x), *[c.tied(o) for o in self._ops])
        return {"E.lower": Implies(And(on(c), tied, sm), self._lo <= X),
                "E.upper_weak": Implies(And(on(c), tied, sm), X <= self._hi)}


@register
class FxpRemoveScaling(_Fxp):
    """remove_scaling(v): representation / R, for a plain representation and for a secret one (which is opened)"""
    name = "pysnark.fixedpoint:LinCombFxp.remove_scaling"
    op = "remove_scaling"
    vprops = ("C14", "C04")

    def configs(self, tier):
        return [dict(mode="plain", kind=k, res=r, bits=4) for r in RES + (8,) for k in ("lc", "int")]

    def setup(self, c, cfg):
        apply_mode(c, cfg["mode"], bitlength=cfg["bits"])
        c.w.modules["pysnark.fixedpoint"].resolution = cfg["res"]
        v = c.operand("x") if cfg["kind"] == "lc" else SymInt(z3.Int("s_v"))
        return c.LinCombFxp.remove_scaling, (v,), {}

    def post(self, c, r, v):
        R = 1 << c.cfg["res"]
        ok = isinstance(r, SymRat)
        rep = c.v(v) if hasattr(v, "lc") else term(v)
        return {"V.kind": ok, "V.value": ok and And(r.num == rep, r.den == R)}
