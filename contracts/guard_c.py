"""Contracts for the guard state machine of pysnark/runtime.py (C08).

State  G = (guard, _ignore_errors, LinComb.ONE).  `c.entry` is G at entry of the
function under contract, `c.now` is G at its exit (normal or exceptional).
"""
import z3
from .common import *
from .boolean_c import is01


def _same_state(a, b):
    """G == G'  : object identity for guard and ONE, truth value for the flag."""
    return And(a["guard"] is b["guard"], a["ONE"] is b["ONE"], formula(a["ie"]) == formula(b["ie"]))


def _outer_states(c, outer, ie0):
    """Put the runtime into an arbitrary well-formed outer state."""
    rt = c.rt
    rt._ignore_errors = ie0
    if outer == "guarded":
        G = c.operand("outer")
        cur().assume(is01(term(G.value)))
        rt.guard = G
        rt.LinComb.ONE = G
    c.mode = "plain" if outer == "none" else "g1"


# Every gadget-layer contract (C01-C07) is proved per flag/guard MODE; the modes are exactly the states these three
# functions establish and restore (errors off while ANY enclosing guard is false, LinComb.ONE = the current guard,
# state restored on every exit).  Their clauses are therefore obligations of each of those properties, not of C08 only.
MODE_STATE_PROPS = ("C01", "C02", "C03", "C04", "C05", "C06", "C07", "C08", "C09",      # C09: nested oblivious blocks ARE nested guards
                    "C14", "C15", "C16", "C17", "C20")          # ... and the gadgets of these properties are proved per mode as well


@register
class AddGuard(Contract):
    """add_guard(cond): returns the old state; new guard = old guard AND cond; errors are ignored
    from here on iff they were before or cond is false; constants are multiplied by the guard."""
    name = "pysnark.runtime:add_guard"
    assigns = GUARD_STATE
    vprops = MODE_STATE_PROPS
    fprops = MODE_STATE_PROPS
    facets = "VRFTNSK"
    cprops = eprops = ()
    sprops = ("C02", "C03", "C08", "C09")
    tprops = ("C06", "C09") # entering a nested region must cost the same constraints whatever the outer guard's value
    guard_relevant = False
    modules = ("pysnark.runtime", "pysnark.boolean")

    def configs(self, tier):
        out = []
        for outer in ("none", "guarded"):
            for ie0 in (False, True):
                for kind in ("lc", "int", "bool"):
                    out.append(dict(outer=outer, ie0=ie0, kind=kind, bits=2,
                                    **({"raises_only": True} if kind == "bool" else {})))
        return out

    def setup(self, c, cfg):
        c.rt.bitlength = cfg["bits"]
        _outer_states(c, cfg["outer"], cfg["ie0"])
        if cfg["kind"] == "lc":
            cond = c.operand("cond")
        elif cfg["kind"] == "int":
            cond = c.public_int("cond")
        else:
            cond = c.operand_bool("cond")
        return c.rt.add_guard, (cond,), {}

    def use_stub(self, c, cond):
        return False

    def pre(self, c, cond):
        return [(1 << c.bitlength) < c.p]

    def raises(self, c, cond):
        e = c.entry or c.snapshot()
        if isinstance(cond, c.LinComb):
            out = [(RuntimeError, And(Not(formula(e["ie"])), Not(is01(c.v(cond)))))]
            if e["guard"] is not None:
                # nested: old_guard & cond is the bitwise AND gadget, which range-checks its operands
                n = c.bitlength
                gv, cv = c.v(e["guard"]), c.v(cond)
                out.append((AssertionError, And(Not(formula(e["ie"])), Or(gv < 0, gv >= (1 << n), cv < 0, cv >= (1 << n)))))
            return out
        if isinstance(cond, int):
            return [(RuntimeError, term(cond) != 1)]
        return [(TypeError, True)]

    def post(self, c, r, cond):
        e, now = c.entry, c.now
        d = {
            "V.returns_old_state": And(isinstance(r, tuple) and len(r) == 3 and r[0] is e["guard"] and r[2] is e["ONE"],
                                        formula(r[1]) == formula(e["ie"])),
        }
        if isinstance(cond, int):
            d["F.unchanged_for_public_true"] = _same_state(e, now)
            return d
        d["F.one_is_guard"] = now["ONE"] is now["guard"] and now["guard"] is not None
        d["F.ignore_errors"] = formula(now["ie"]) == Or(formula(e["ie"]), c.v(cond) == 0)
        if e["guard"] is None:
            d["F.guard_is_cond"] = now["guard"] is cond
        else:
            both01 = And(is01(c.v(e["guard"])), is01(c.v(cond)))
            d["V.conjunction"] = Implies(both01, Eq(c.v(now["guard"]), If(And(c.v(e["guard"]) == 1, c.v(cond) == 1), 1, 0)))
            d["V.inv"] = c.inv(now["guard"])
            d["canary.V.conjunction"] = Implies(both01, Eq(c.v(now["guard"]), c.v(cond)))
            # for a dishonest prover too: with both conditions as given and the enclosing region LIVE, the nested
            # guard's wire is the conjunction (inside a dead region the conjunction gadget is itself switched off:
            # the nested guard is then free, which only lets the prover switch dead code ON)
            d["S.conjunction_determined"] = Implies(And(c.tied(e["guard"]), c.tied(cond), both01, c.v(e["guard"]) == 1),
                                                    c.eva(now["guard"]) == c.v(now["guard"]) % c.p)
        return d

    def post_exc(self, c, e_, cond):
        return {"F.state_unchanged": _same_state(c.entry, c.now)}


@register
class RestoreGuard(Contract):
    name = "pysnark.runtime:restore_guard"
    assigns = GUARD_STATE
    vprops = MODE_STATE_PROPS
    fprops = MODE_STATE_PROPS
    facets = "VRFTNK"
    cprops = sprops = eprops = tprops = ()
    guard_relevant = False

    def configs(self, tier):
        return [dict(outer=o, ie0=i) for o in ("none", "guarded") for i in (False, True)]

    def setup(self, c, cfg):
        _outer_states(c, cfg["outer"], cfg["ie0"])
        # an arbitrary saved state: any guard object (or None), any flag, any ONE object
        bg = c.operand("bak_guard") if cfg["outer"] == "guarded" else None
        bo = c.operand("bak_one")
        self._bak = (bg, SymBool(z3.Bool("k_bak_ie")), bo)
        return c.rt.restore_guard, (self._bak,), {}

    def use_stub(self, c, bak):
        return False

    def post(self, c, r, bak):
        now = c.now
        return {"F.state_is_bak": And(now["guard"] is bak[0], now["ONE"] is bak[2], formula(now["ie"]) == formula(bak[1])),
                "V.returns_none": r is None}


class _Boom(BaseException):
    """an arbitrary BaseException subclass raised by the havocked body"""


@register
class Guarded(Contract):
    """guarded(cond)(fn)(*args): whatever fn does to the guard state, and however it exits,
    the state after the call is the state before it."""
    name = "pysnark.runtime:guarded.<locals>._guarded.<locals>.__guarded"
    probe = True              # the contract is on the CALL guarded(cond)(fn)(*args), however the wrapper is built inside
    assigns = GUARD_STATE
    vprops = MODE_STATE_PROPS
    fprops = MODE_STATE_PROPS
    facets = "VRFTNK"
    cprops = sprops = eprops = tprops = ()
    guard_relevant = False
    modules = ("pysnark.runtime", "pysnark.boolean")

    def configs(self, tier):
        out = []
        for outer in ("none", "guarded"):
            for ie0 in (False, True):
                for exitkind in ("return", "Exception", "BaseException", "SystemExit", "KeyboardInterrupt"):
                    out.append(dict(outer=outer, ie0=ie0, exit=exitkind, bits=2,
                                    **({} if exitkind == "return" else {"raises_only": True})))
                # a PLAIN true condition (an int 1, a bool True: e.g. a comparison of public values) installs no guard
                # of its own, but the region still ends: whatever the body left behind is undone all the same
                for cond in ("int", "true"):
                    for exitkind in ("return", "Exception"):
                        out.append(dict(outer=outer, ie0=ie0, exit=exitkind, bits=2, cond=cond,
                                        **({} if exitkind == "return" else {"raises_only": True})))
                # the wrapped function calls ITSELF once (a recursive guarded function): each activation restores
                # what IT found, the outermost one the state from before the whole call
                for exitkind in ("return", "Exception"):
                    out.append(dict(outer=outer, ie0=ie0, exit=exitkind, bits=2, reenter=True,
                                    **({} if exitkind == "return" else {"raises_only": True})))
        return out

    def setup(self, c, cfg):
        rt = c.rt
        rt.bitlength = cfg["bits"]
        _outer_states(c, cfg["outer"], cfg["ie0"])
        if cfg.get("cond") == "int":
            cond = 1
        elif cfg.get("cond") == "true":
            cond = True
        else:
            cond = c.operand("cond")
            cur().assume(is01(term(cond.value)))
        ret = object()
        self._ret = ret
        exitkind = cfg["exit"]

        depth = [0]
        holder = []

        def body(*a, **k):
            depth[0] += 1
            if cfg.get("reenter") and depth[0] == 1:
                try:
                    holder[0](*a, **k)
                except BaseException:      # noqa  the inner activation's exception is not the outer one's business
                    pass
            # havoc: an arbitrary body may leave ANY guard state behind ...
            rt.guard = c.operand("junk_guard")
            rt._ignore_errors = SymBool(z3.Bool("k_junk_ie"))
            rt.LinComb.ONE = c.operand("junk_one")
            # ... and exit any way it likes
            if exitkind == "return":
                return ret
            raise {"Exception": ValueError, "BaseException": _Boom, "SystemExit": SystemExit,
                   "KeyboardInterrupt": KeyboardInterrupt}[exitkind]("from the body")
        self._body = body
        wrapped = rt.guarded(cond)(body)
        holder.append(wrapped)
        return wrapped, (1, 2), {"kw": 3}

    def use_stub(self, c, *a, **k):
        return False

    def pre(self, c, *a, **k):
        return [(1 << c.bitlength) < c.p]

    def raises(self, c, *a, **k):
        e = c.entry or c.snapshot()
        x = c.cfg["exit"]
        out = []
        if x != "return":
            out.append(({"Exception": ValueError, "BaseException": _Boom, "SystemExit": SystemExit,
                         "KeyboardInterrupt": KeyboardInterrupt}[x], True))
        return out

    def post(self, c, r, *a, **k):
        return {"F.state_restored": _same_state(c.entry, c.now), "V.returns_body_result": r is self._ret}

    def post_exc(self, c, e_, *a, **k):
        return {"F.state_restored": _same_state(c.entry, c.now)}


@register
class GuardedTermination(Guarded):
    """... and the way the body ENDS is the way the call ends (C18): sys.exit(n), Ctrl-C or an uncaught exception that
    starts inside a guarded function reaches the interpreter.  A wrapper that swallowed it would let the script run on to
    a normal end -- after sys.exit(3) the overrider has already recorded the status, so the run ends with status 0 and
    automatic proving on, yet nothing is proved; after an exception a crashed computation is proved."""
    name = "pysnark.runtime:guarded.<locals>._guarded.<locals>.__guarded#termination"
    vprops = ("C18",)
    fprops = ("C18",)
    layer = "process"

    def configs(self, tier):
        return [dict(outer="none", ie0=False, exit=x, bits=2, raises_only=True) for x in ("SystemExit", "KeyboardInterrupt", "Exception")] + \
               [dict(outer="none", ie0=False, exit="return", bits=2)]


@register
class IgnoreErrors(Contract):
    """ignore_errors(val=None): the switch of the run-time checks.  Called with True or False it sets the flag to
    exactly that value (also back to False) and returns it; called without argument it only reports the flag.
    Guard and constant one are not touched."""
    name = "pysnark.runtime:ignore_errors"
    assigns = ("pysnark.runtime:_ignore_errors",)
    vprops = MODE_STATE_PROPS
    fprops = MODE_STATE_PROPS
    facets = "VRFTNK"
    cprops = sprops = eprops = tprops = ()
    guard_relevant = False
    modules = ("pysnark.runtime", "pysnark.boolean")

    def configs(self, tier):
        return [dict(outer=o, ie0=i, arg=a) for o in ("none", "guarded") for i in (False, True) for a in ("none", "true", "false", "omitted")]

    def setup(self, c, cfg):
        _outer_states(c, cfg["outer"], cfg["ie0"])
        a = cfg["arg"]
        if a == "omitted":
            return c.rt.ignore_errors, (), {}
        return c.rt.ignore_errors, ({"none": None, "true": True, "false": False}[a],), {}

    def use_stub(self, c, *a):
        return False

    def post(self, c, r, *a):
        e, now = c.entry, c.now
        want = formula(e["ie"]) if (not a or a[0] is None) else z3.BoolVal(bool(a[0]))
        return {"F.flag": formula(now["ie"]) == want,
                "V.returns_flag": formula(r) == want,
                "F.guard_and_one_untouched": now["guard"] is e["guard"] and now["ONE"] is e["ONE"]}


@register
class IsGuard(Contract):
    """is_guard(): True exactly when no guard is installed or the installed guard's VALUE is 1 -- whatever the
    error switch says (a live region stays live when the user has switched the run-time checks off)."""
    name = "pysnark.runtime:is_guard"
    assigns = ()
    vprops = MODE_STATE_PROPS
    fprops = MODE_STATE_PROPS
    facets = "VRFTNK"
    cprops = sprops = eprops = tprops = ()
    guard_relevant = False
    modules = ("pysnark.runtime", "pysnark.boolean")

    def configs(self, tier):
        return [dict(outer=o, ie0=i) for o in ("none", "guarded") for i in (False, True)]

    def setup(self, c, cfg):
        _outer_states(c, cfg["outer"], cfg["ie0"])
        return c.rt.is_guard, (), {}

    def use_stub(self, c, *a):
        return False

    def post(self, c, r):
        e, now = c.entry, c.now
        g = e["guard"]
        want = z3.BoolVal(True) if g is None else (c.v(g) == 1)
        return {"V.live_iff_no_guard_or_guard_is_one": formula(r) == want,
                "F.state_untouched": _same_state(e, now)}
