"""Contracts for the hash gadgets (C20): pysnark/poseidon_hash.py and ggh_hash.py.

Poseidon: the three round loops of `permute` are cut per iteration: for each concrete round
index r and for ALL states, one execution of the real loop body equals Round_r (written here
from the Poseidon definition: add round constants, S-box x^alpha on all / on the first element,
multiply by the MDS matrix), all mod p.  The permutation then equals the composition of the 68
round functions (induction over the round index; pen-and-paper).  Published vectors and an
independent plain-integer implementation are compared on ground instances."""
import hashlib
import struct
import z3
from .common import *
from .boolean_c import is01
from pyvc import ghost as gh

MODS = ("pysnark.runtime", "pysnark.boolean", "pysnark.fixedpoint", "pysnark.branching")
ZKIF = "pysnark.zkinterface.backend"


def _constants(c, name):
    return c.w.import_module("pysnark.poseidon_constants").poseidon_constants[name]


def round_spec(state, r, K, p, full):
    """One Poseidon round on integers mod p (reference)."""
    t = len(state)
    s = [(x + K["round_constants"][r][i]) for i, x in enumerate(state)]
    a = K["a"]

    def sbox(x):
        y = x
        for _ in range(a - 1):
            y = imul(x, y)
        return y
    s = [sbox(x) for x in s] if full else [sbox(s[0])] + s[1:]
    return [z3.Sum([K["matrix"][i][k] * s[k] for k in range(t)]) for i in range(t)]


def poseidon_plain(state, K, p):
    """Independent plain-integer Poseidon permutation (concrete)."""
    t, a = K["t"], K["a"]
    rf, rp = K["R_F"], K["R_P"]
    st = [x % p for x in state]
    for r in range(rf + rp):
        st = [(x + K["round_constants"][r][i]) % p for i, x in enumerate(st)]
        full = r < rf // 2 or r >= rf // 2 + rp
        st = [pow(x, a, p) for x in st] if full else [pow(st[0], a, p)] + st[1:]
        st = [sum(K["matrix"][i][k] * st[k] for k in range(t)) % p for i in range(t)]
    return st


VECTORS = {
    # published permutation vectors for input (0,1,2,3,4) (reference implementation's test vectors)
    "zkinterface": [0x299c867db6c1fdd79dcefa40e4510b9837e60ebb1ce0663dbaa525df65250465,
                    0x1148aaef609aa338b27dafd89bb98862d8bb2b429aceac47d86206154ffe053d,
                    0x24febb87fed7462e23f6665ff9a0111f4044c38ee1672c1ac6b0637d34f24907,
                    0x0eb08f6d809668a981c186beaf6110060707059576406b248e5d9cf6e78b3d3e,
                    0x07748bc6877c9b82c8b98666ee9d0626ec7f5be4205f79ee8528ef1c4a376fc7],
    "zkifbellman": [0x2a918b9c9f9bd7bb509331c81e297b5707f6fc7393dcee1b13901a0b22202e18,
                    0x65ebf8671739eeb11fb217f2d5c5bf4a0c3f210e3f3cd3b08b5db75675d797f7,
                    0x2cc176fc26bc70737a696a9dfd1b636ce360ee76926d182390cdb7459cf585ce,
                    0x4dc4e29d283afd2a491fe6aef122b9a968e74eff05341f3cc23fda1781dcb566,
                    0x03ff622da276830b9451b88b85e6184fd6ae15c8ab3ee25a5667be8592cce3b1],
}
FIELD_OF = {"zkinterface": gh.PRIMES["bn254"], "zkifbellman": gh.PRIMES["bls12_381"], "zkifbulletproofs": gh.PRIMES["curve25519"],
            "nobackend": 10000}       # the dry-run backend's registered set (R_F = R_P = 2) over its stated modulus
GHOST_AS = {"zkinterface": "pysnark.zkinterface.backend", "zkifbellman": "pysnark.zkinterface.backendbellman",
            "zkifbulletproofs": "pysnark.zkinterface.backendbulletproofs"}


class _Hash(Contract):
    modules = MODS
    cprops = ("C01", "C20")
    sprops = ()
    eprops = ()
    vprops = ("C20",)
    tprops = ("C20",)
    fprops = ("C20",)
    guard_relevant = False
    ghost_as = ZKIF

    def use_stub(self, c, *a, **k):
        return False


class RoundCut:
    """Loop rule: cut the loop at every iteration.  Before iteration r the state is replaced by
    fresh arbitrary secret values; after it, every element must equal Round_r of those."""

    def __init__(self, contract, phase):
        self.K = contract
        self.phase = phase

    def __call__(self, interp, st, fr, it):
        c = interp.w.ctx
        P = cur()
        K = self.K._K
        p = c.p
        rf, rp = K["R_F"], K["R_P"]
        base = {0: 0, 1: rf // 2, 2: rf // 2 + rp}[self.phase]
        full = self.phase != 1
        lo, hi = self.K._range
        for r, item in enumerate(it):     # the round index is the iteration's ordinal, whatever the loop iterates over
            if not (lo <= base + r < hi):
                continue              # this configuration covers another slice of the round indices
            state = [c.operand("st_r%d_%d" % (base + r, i)) for i in range(K["t"])]
            fr.locals["sponge"] = list(state)
            interp.assign(st.target, item, fr)
            n0 = len(c.g.trace)
            interp.exec_block(st.body, fr)
            out = fr.locals["sponge"]
            want = round_spec([c.v(x) for x in state], base + r, K, p, full)
            hy = list(P.hyps())
            for i, (o, wv) in enumerate(zip(out, want)):
                c.callsite_obligations.append(("loop.round[%d].value[%d]" % (base + r, i), hy, modeq(c.v(o), wv, p)))
                c.callsite_obligations.append(("loop.round[%d].reduced[%d]" % (base + r, i), hy, And(c.v(o) >= 0, c.v(o) < p)))
                c.callsite_obligations.append(("loop.round[%d].inv[%d]" % (base + r, i), hy, c.inv(o)))
            c.callsite_obligations.append(("loop.round[%d].length" % (base + r), hy, z3.BoolVal(len(out) == K["t"])))
            cnt = c.g.counts(n0)
            nsb = (K["t"] if full else 1) * (K["a"] - 1)
            c.callsite_obligations.append(("loop.round[%d].constraints" % (base + r), hy, z3.BoolVal(cnt == (0, nsb, nsb))))
            self.K._rounds_seen.append(base + r)


@register
class Permute(_Hash):
    """permute(state): every round of the real loop bodies equals the reference round function, for all states."""
    name = "pysnark.poseidon_hash:permute"
    history_ok = False        # the round cuts count the rounds of the whole run

    CHUNK = 6

    def configs(self, tier):
        ps = ["zkinterface"] + (["zkifbellman", "zkifbulletproofs"] if tier != "quick" else [])
        return [dict(params=k, rounds="%d-%d" % (a, min(a + self.CHUNK, 68))) for k in ps for a in range(0, 68, self.CHUNK)]

    def world_setup(self, w):
        from .backend_c import _stub_world
        _stub_world(w)
        w.environ["PYSNARK_BACKEND"] = getattr(self, "_env", "zkinterface")

    def setup(self, c, cfg):
        apply_mode(c, "plain")
        c.w.environ["PYSNARK_BACKEND"] = cfg["params"]
        c.rt.backend_name = cfg["params"]
        ph = c.w.import_module("pysnark.poseidon_hash")
        self._K = dict(R_F=ph.R_F, R_P=ph.R_P, t=ph.t, a=ph.a, round_constants=ph.round_constants, matrix=ph.matrix)
        self._rounds_seen = []
        a_, b_ = cfg["rounds"].split("-")
        self._range = (int(a_), int(b_))
        c.w.loop_hooks = {}
        for k in range(3):        # the three round loops are the loops of permute's own body, in order
            c.w.loop_hooks[(self.name, "top", k)] = RoundCut(self, k)
        return ph.permute, ([c.operand("in%d" % i) for i in range(ph.t)],), {}

    def post(self, c, r, state):
        K = self._K
        lo, hi = self._range
        return {"V.all_rounds_checked": sorted(self._rounds_seen) == list(range(lo, min(hi, K["R_F"] + K["R_P"]))),
                "V.round_count": K["R_F"] + K["R_P"] == 68,
                "V.state_width": isinstance(r, list) and len(r) == K["t"],
                "V.parameters_are_full_strength": K["R_F"] == 8 and K["R_P"] == 60 and K["a"] == 5 and K["t"] == 5}


@register
class PermuteGround(_Hash):
    """ground instances: the real permute on concrete inputs == independent plain-integer Poseidon == published vector"""
    name = "pysnark.poseidon_hash:permute#ground"
    cprops = ()
    tprops = ()
    skip_facets = "CT"        # satisfaction and trace shape are carried by the per-round contract (Permute); here: values only

    def configs(self, tier):
        # warm="g0": the process's FIRST permutation ran inside a region whose guard is false (a hash in a branch not
        # taken); nothing it computed there may stick to later, unguarded permutations
        return [dict(params=k, input=inp) for k in ("zkinterface", "zkifbellman", "zkifbulletproofs") for inp in ("01234", "big")] + \
               [dict(params="zkinterface", input="01234", warm="g0")] + \
               [dict(params="nobackend", input=inp) for inp in ("01234", "big")]   # the registered round NUMBERS rule, not the table's length

    def world_setup(self, w):
        from .backend_c import _stub_world
        _stub_world(w)
        w.environ["PYSNARK_BACKEND"] = self._cfgparams if hasattr(self, "_cfgparams") else "zkinterface"

    probe = True

    def setup(self, c, cfg):
        # the ghost backend runs with the prime of the configuration's field
        apply_mode(c, "plain")
        c.w.use_contracts = False                    # a ground run through the real code only: nothing is summarised
        p = FIELD_OF[cfg["params"]]
        c.g.p = p
        cur().p = p
        c.p = p
        c.w.environ["PYSNARK_BACKEND"] = cfg["params"]
        c.rt.backend_name = cfg["params"]
        ph = c.w.import_module("pysnark.poseidon_hash")
        K = _constants(c, cfg["params"])
        self._K = K
        self._bound_ok = (ph.round_constants is K["round_constants"] and ph.matrix is K["matrix"])
        vals = [0, 1, 2, 3, 4] if cfg["input"] == "01234" else [p - 1, 2 ** 200 + 7, 0, -5, 12345678901234567890]
        self._vals = vals
        if cfg.get("warm") == "g0":
            rt = c.rt
            before = (rt.guard, rt._ignore_errors, rt.LinComb.ONE)
            G = rt.PrivVal(0)                        # a concrete dead guard (ground instance: nothing symbolic)
            rt.guard, rt._ignore_errors, rt.LinComb.ONE = G, True, G
            try:
                ph.permute([rt.PrivVal(v + 1) for v in vals])
            finally:
                rt.guard, rt._ignore_errors, rt.LinComb.ONE = before
        return ph.permute, ([c.rt.PrivVal(v) for v in vals],), {}

    def post(self, c, r, state):
        p = c.p
        ref = poseidon_plain(self._vals, self._K, p)
        got = [x.value % p for x in r]
        d = {"V.parameters_bound_for_field": self._bound_ok,
             "V.equals_plain_reference": got == ref}
        if c.cfg["input"] == "01234" and c.cfg["params"] in VECTORS:
            d["V.published_vector"] = got == VECTORS[c.cfg["params"]]
        return d

    def counts(self, c, state):
        return (0, 400, 400)


@register
class PoseidonParams(_Hash):
    """importing poseidon_hash binds the parameter set registered for the backend actually selected"""
    name = "pysnark.poseidon_hash:<module>"
    probe = True

    def configs(self, tier):
        # how the backend came to be selected: by pre-import (PYSNARK_BACKEND unset / naming something else) or by the environment
        return [dict(selected=s, env=e) for s in ("zkinterface", "zkifbellman", "snarkjs") for e in ("unset", "same", "other")]

    @property
    def ghost_as(self):
        return getattr(self, "_ghost_as", ZKIF)

    def world_setup(self, w):
        from .backend_c import _stub_world
        _stub_world(w)

    def setup(self, c, cfg):
        return (lambda: None), (), {}

    def run(self, c, cfg):
        pass

    def post(self, c, r):
        return self._result


def _params_probe(self, c, cfg):
    """executed inside setup: build a world in which `selected` is the backend in effect"""


# PoseidonParams needs one world per configuration with a different ghost registration:
def _pp_setup(self, c, cfg):
    sel = cfg["selected"]
    w = c.w
    rt = c.rt
    # the world was built with the ghost registered as self.ghost_as; emulate the selection outcome
    rt.backend_name = sel
    env = {"unset": None, "same": sel, "other": "nobackend"}[cfg["env"]]
    if env is None:
        w.environ.pop("PYSNARK_BACKEND", None)
    else:
        w.environ["PYSNARK_BACKEND"] = env
    consts = w.import_module("pysnark.poseidon_constants").poseidon_constants
    res = {}

    def probe():
        try:
            ph = w.import_module("pysnark.poseidon_hash")
        except NotImplementedError:
            return "refused"
        return ph
    self._consts = consts
    return probe, (), {}


def _pp_post(self, c, r):
    sel = c.cfg["selected"]
    consts = self._consts
    if sel not in consts:
        return {"V.unsupported_backend_is_refused_not_given_toy_parameters": r == "refused"}
    if r == "refused":
        return {"V.parameters_of_selected_backend": False}
    K = consts[sel]
    return {"V.parameters_of_selected_backend": r.round_constants is K["round_constants"] and r.matrix is K["matrix"]
            and (r.R_F, r.R_P, r.t, r.a) == (K["R_F"], K["R_P"], K["t"], K["a"])}


PoseidonParams.setup = _pp_setup
PoseidonParams.post = _pp_post


@register
class PoseidonSponge(_Hash):
    """poseidon_hash(inputs): padding m ++ [1] ++ 0^k to a multiple of t-1, absorption into the rate part,
    capacity element untouched by absorption, output = rate part of the last state."""
    name = "pysnark.poseidon_hash:poseidon_hash"

    def configs(self, tier):
        # imported="g0": the module is first imported inside a region whose guard is false (a lazy import in a branch
        # that is not taken) and the hash is called after the region has ended: nothing of the region may stick
        return [dict(n=n) for n in range(0, 9 if tier == "quick" else 13)] + [dict(n=n, imported="g0") for n in (0, 2, 3)]

    def world_setup(self, w):
        from .backend_c import _stub_world
        _stub_world(w)
        w.environ["PYSNARK_BACKEND"] = "zkinterface"

    def setup(self, c, cfg):
        c.rt.backend_name = "zkinterface"
        if cfg.get("imported") == "g0":
            rt = c.rt
            before = (rt.guard, rt._ignore_errors, rt.LinComb.ONE)
            apply_mode(c, "g0")
            c.w.import_module("pysnark.poseidon_hash")
            rt.guard, rt._ignore_errors, rt.LinComb.ONE = before          # what restore_guard does (contract RestoreGuard)
        apply_mode(c, "plain")
        ph = c.w.import_module("pysnark.poseidon_hash")
        self._t = ph.t
        self._calls = []
        real = ph.permute

        def permute_summary(sponge):
            # the permutation is under its own contract (Permute): here an opaque state transformer
            self._calls.append(list(sponge))
            return [c.operand("perm%d_%d" % (len(self._calls), i)) for i in range(len(sponge))]
        ph.permute = permute_summary
        self._inputs = [c.operand("m%d" % i) for i in range(cfg["n"])]
        return ph.poseidon_hash, (list(self._inputs),), {}

    def begin_call(self, c):
        self._calls = []          # the permutations of an earlier call (history configurations) are not this call's

    def post(self, c, r, inputs):
        t = self._t
        rate = t - 1
        n = len(self._inputs)
        nblocks = n // rate + 1
        padded = [c.v(x) for x in self._inputs] + [z3.IntVal(1)] + [z3.IntVal(0)] * (nblocks * rate - n - 1)
        d = {"V.number_of_permutations": len(self._calls) == nblocks}
        if not d["V.number_of_permutations"]:
            return d
        prev = [z3.IntVal(0)] * t
        cl = []
        for b, call in enumerate(self._calls):
            blk = padded[b * rate:(b + 1) * rate]
            cl.append(modeq(c.v(call[0]), prev[0], c.p))                       # capacity element: not touched by absorption
            for i in range(rate):
                cl.append(modeq(c.v(call[1 + i]), prev[1 + i] + blk[i], c.p))
            prev = [z3.Int("s_perm%d_%d" % (b + 1, i)) for i in range(t)]
        d["V.absorbs_padded_message"] = And(*cl)
        d["V.output_is_rate_part"] = isinstance(r, list) and len(r) == rate and And(*[Eq(c.v(x), prev[1 + i]) for i, x in enumerate(r)])
        d["V.pad_marker_position"] = True
        # injectivity: a shorter message with the same number of blocks has 0 where the longer one has its marker or content;
        # different block counts give different numbers of permutations.  The marker is the constant one, the filler zero:
        d["V.pad_marker_is_one"] = padded[n].as_long() == 1 and all(x.as_long() == 0 for x in padded[n + 1:])
        d["V.padded_length_multiple_of_rate"] = len(padded) % rate == 0 and len(padded) > n
        return d


def _prng_reference(i, prime):
    """independent reimplementation of the nothing-up-my-sleeve generator"""
    bl = prime.bit_length()
    it = 0
    while True:
        h = hashlib.sha512(struct.pack("=QQ", i, it)).digest()
        val = int.from_bytes(h, "little") % (2 ** bl)
        if val < prime:
            return val
        it += 1


@register
class GGH(_Hash):
    """ggh_hash on secret bits == the plain subset-sum hash of the same bits, mod p"""
    name = "pysnark.ggh_hash:ggh_hash_nonplain"
    ghost_as = None

    def configs(self, tier):
        return [dict(n=n) for n in (1, 2, 4)]

    def setup(self, c, cfg):
        apply_mode(c, "plain")
        gm = c.w.import_module("pysnark.ggh_hash")
        self._bits = [c.operand_bool("b%d" % i) for i in range(cfg["n"])]
        self._vals = [b.lc.value for b in self._bits]
        self._gm = gm
        return gm.ggh_hash_nonplain, ([b.lc for b in self._bits],), {}

    def post(self, c, r, bits):
        p = c.p
        gm = self._gm
        coefs = [_prng_reference(i, p) for i in range(len(bits))]
        plain = gm.ggh_hash_plain([0, 1, 1, 0][:len(bits)])
        return {"V.modulus": gm.PRIME == p,
                "V.value": modeq(c.v(r), z3.Sum([k * c.v(b) for k, b in zip(coefs, bits)]), p),
                "V.reduced": And(c.v(r) >= 0, c.v(r) < p),
                "V.inv": c.inv(r),
                "F.operands_unchanged": all(b.value is v for b, v in zip(bits, self._vals)),
                "V.plain_agrees_on_ground_instance": plain == sum(k * b for k, b in zip(coefs, [0, 1, 1, 0])) % p,
                "V.prng_matches_reference(bounded)": all(gm.SHA512_prng(i) == _prng_reference(i, p) for i in range(32))}

    def counts(self, c, bits):
        return (0, 0, 0)



@register
class GGHPlain(_Hash):
    """ggh_hash_plain(bits) on plain 0/1 values: sum_i b_i * k_i mod p with k_i the nothing-up-my-sleeve coefficients"""
    name = "pysnark.ggh_hash:ggh_hash_plain"
    ghost_as = None
    cprops = tprops = ()
    skip_facets = "CT"

    def configs(self, tier):
        # every supported field: the generator's mask width and rejection loop depend on the prime (the curve25519
        # order sits just above a power of two: about half of the candidates are rejected there)
        return [dict(n=n) for n in (0, 1, 3)] + [dict(n=3, prime=q) for q in ("bls12_381", "curve25519")]

    def setup(self, c, cfg):
        apply_mode(c, "plain")
        gm = c.w.import_module("pysnark.ggh_hash")
        self._gm = gm
        self._bits = [c.public_int("b%d" % i) for i in range(cfg["n"])]
        for b in self._bits:
            cur().assume(z3.Or(term(b) == 0, term(b) == 1))
        return gm.ggh_hash_plain, (list(self._bits),), {}

    def post(self, c, r, bits):
        p = c.p
        coefs = [_prng_reference(i, p) for i in range(len(bits))]
        return {"V.modulus": self._gm.PRIME == p,
                "V.value": Eq(r, z3.Sum([z3.IntVal(0)] + [k * term(b) for k, b in zip(coefs, bits)]) % p),
                "V.plain_int": isinstance(r, int),
                "V.prng_matches_reference(bounded)": all(self._gm.SHA512_prng(i) == _prng_reference(i, p) for i in range(32)),
                "V.mask_width": self._gm.bitlength(p) == p.bit_length()}


@register
class GGHDispatch(_Hash):
    """ggh_hash(bits): the traced hash as soon as one bit is secret, the plain one otherwise; the same number either way"""
    name = "pysnark.ggh_hash:ggh_hash"
    ghost_as = None

    def configs(self, tier):
        return [dict(kinds=k) for k in ("ss", "sk", "ks", "kk")]

    def setup(self, c, cfg):
        apply_mode(c, "plain")
        gm = c.w.import_module("pysnark.ggh_hash")
        self._gm = gm
        bits = []
        for i, ch in enumerate(cfg["kinds"]):
            if ch == "s":
                bits.append(c.operand_bool("b%d" % i).lc)
            else:
                k = c.public_int("b%d" % i)
                cur().assume(z3.Or(term(k) == 0, term(k) == 1))
                bits.append(k)
        self._bits = bits
        return gm.ggh_hash, (list(bits),), {}

    def post(self, c, r, bits):
        p = c.p
        coefs = [_prng_reference(i, p) for i in range(len(bits))]
        val = lambda b: term(b) if isinstance(b, int) else c.v(b)
        want = z3.Sum([k * val(b) for k, b in zip(coefs, bits)])
        secret = any(not isinstance(b, int) for b in bits)
        d = {"V.traced_iff_a_bit_is_secret": hasattr(r, "lc") == secret}
        if hasattr(r, "lc"):
            d["V.value"] = modeq(c.v(r), want, p)
            d["V.inv"] = c.inv(r)
        else:
            d["V.value"] = Eq(r, want % p)
        return d

    def counts(self, c, bits):
        return (0, 0, 0)


_PP_PROBE = r"""
import sys, os, json, importlib
cfg = json.load(open(sys.argv[1]))
sys.path.insert(0, cfg["stubs"]); sys.path.insert(0, cfg["repo"])
if cfg["env"] is None: os.environ.pop("PYSNARK_BACKEND", None)
else: os.environ["PYSNARK_BACKEND"] = cfg["env"]
out = {}
try:
    if cfg["preimport"]: importlib.import_module(cfg["preimport"])
    import pysnark.runtime as rt
    import atexit; atexit._clear()
    out["backend_name"] = rt.backend_name
    try:
        import pysnark.poseidon_hash as ph
        out.update(R_F=ph.R_F, R_P=ph.R_P, a=ph.a, t=ph.t)
    except NotImplementedError as e:
        out["refused"] = str(e)
except BaseException as e:
    out["exception"] = type(e).__name__ + ": " + str(e)[:200]
json.dump(out, open(sys.argv[2], "w"), default=str)
"""


def _pp_replay(self, ob, cfg):
    import json, os, subprocess, sys, tempfile, shutil
    from pyvc.replay import REPO
    from .selection_c import make_stub_env, PATHS, NAMES
    tmp = tempfile.mkdtemp(prefix="pyvc_pp_")
    try:
        stubs, env = make_stub_env(tmp)
        sel = cfg["selected"]
        req = dict(stubs=stubs, repo=REPO, preimport=PATHS[NAMES.index(sel)],
                   env={"unset": None, "same": sel, "other": "nobackend"}[cfg["env"]])
        json.dump(req, open(os.path.join(tmp, "req.json"), "w"))
        open(os.path.join(tmp, "probe.py"), "w").write(_PP_PROBE)
        subprocess.run([sys.executable, "probe.py", "req.json", "out.json"], cwd=tmp, capture_output=True, text=True, timeout=60, env=env)
        res = json.load(open(os.path.join(tmp, "out.json")))
        res["environment"] = dict(preimport=req["preimport"], PYSNARK_BACKEND=req["env"])
        toy = res.get("R_F") == 2
        res["confirmed"] = bool(res.get("backend_name") == sel and (toy or (sel == "snarkjs" and "refused" not in res)))
        return res
    finally:
        shutil.rmtree(tmp, ignore_errors=True)


PoseidonParams.native_replay = _pp_replay


_SPONGE_PROBE = r'''
import sys, json, atexit
req = json.load(open(sys.argv[1]))
sys.path.insert(0, req["stubs"]); sys.path.insert(0, req["repo"]); sys.path.insert(0, req["root"])
import pysnark.zkinterface.backend as be          # pre-import: the library's own selection mechanism picks it
import pysnark.runtime as rt
atexit._clear()
if req.get("imported") == "g0":
    # first import of the module inside a region whose guard is false, ended before the hash is called
    _bak = rt.add_guard(rt.PrivVal(0))
    import pysnark.poseidon_hash
    rt.restore_guard(_bak)
import pysnark.poseidon_hash as ph
from pysnark.poseidon_constants import poseidon_constants
from contracts.hash_c import poseidon_plain
p = be.get_modulus()
K = poseidon_constants[rt.backend_name]
vals = req["values"]
out = dict(backend=rt.backend_name)
inputs = [rt.PrivVal(v) for v in vals]
if req.get("history"):
    # the earlier call of the history configuration (same operands), inside a guarded region whose guard is 0 for `g0`
    bak = rt.add_guard(rt.PrivVal(0)) if req["history"] == "g0" else None
    try:
        ph.poseidon_hash(list(inputs))
    except BaseException as e:
        out["earlier_call_raised"] = type(e).__name__
    if bak is not None:
        rt.restore_guard(bak)
try:
    r = ph.poseidon_hash(list(inputs))
    got = [x.value % p for x in r]
    out["outcome"] = "return"
except BaseException as e:
    got = None
    out["outcome"] = "raise"; out["exception"] = type(e).__name__; out["message"] = str(e)[:200]
t = K["t"]; rate = t - 1
padded = [v % p for v in vals] + [1]
padded += [0] * ((-len(padded)) % rate)
st = [0] * t
for b in range(len(padded) // rate):
    st = [st[0]] + [(st[1 + i] + padded[b * rate + i]) % p for i in range(rate)]
    st = poseidon_plain(st, K, p)
ref = st[1:]
out["digest"] = [str(x) for x in got] if got is not None else None
out["reference_digest"] = [str(x) for x in ref]
out["digest_equals_reference"] = got == ref
bad = []
def ev(lc):
    return sum(cf * (1 if k == 0 else (be.pubvals[k - 1] if k > 0 else be.privvals[-k - 1])) for k, cf in lc.lc.items())
for i, (A, B, C) in enumerate(be.constraints):
    if (ev(A) * ev(B) - ev(C)) % p: bad.append(i)
out["unsatisfied_constraints"] = bad[:10]
out["confirmed"] = bool(got is not None and (got != ref or bad))
json.dump(out, open(sys.argv[2], "w"), indent=1)
'''


def _sponge_replay(self, ob, cfg):
    """The property in its own terms on the real code: CPython runs the real poseidon_hash (zkinterface backend selected
    by pre-import, `flatbuffers` stubbed) on the countermodel's message, after the earlier call of a history
    configuration if there is one, and compares the digest with the padded sponge over the independent plain-integer
    permutation."""
    import json, os, subprocess, sys, tempfile, shutil
    from pyvc.replay import REPO, ROOT
    from .selection_c import make_stub_env
    model = ob.get("model") or {}
    tmp = tempfile.mkdtemp(prefix="pyvc_sp_")
    try:
        stubs, env = make_stub_env(tmp)
        vals = [int(model.get("s_m%d" % i, 3 + 7 * i)) for i in range(int(cfg.get("n", 0)))]
        req = dict(stubs=stubs, repo=REPO, root=ROOT, values=vals, history=cfg.get("_history"), imported=cfg.get("imported"))
        json.dump(req, open(os.path.join(tmp, "req.json"), "w"))
        open(os.path.join(tmp, "probe.py"), "w").write(_SPONGE_PROBE)
        pr = subprocess.run(["python3-vt", "probe.py", "req.json", "out.json"], cwd=tmp, capture_output=True, text=True, timeout=300, env=env)
        if not os.path.exists(os.path.join(tmp, "out.json")):
            return dict(confirmed=False, replay_error=(pr.stdout + pr.stderr)[-1500:])
        res = json.load(open(os.path.join(tmp, "out.json")))
        res["message"] = [str(v) for v in vals]
        return res
    finally:
        shutil.rmtree(tmp, ignore_errors=True)


PoseidonSponge.native_replay = _sponge_replay
