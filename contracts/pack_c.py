"""Contracts for pysnark/pack.py (C16, C03): packing structured values into bits and back."""
import z3
from .common import *
from .boolean_c import is01
from pyvc.sym import bit

MODS = ("pysnark.runtime", "pysnark.boolean", "pysnark.pack")


def _pk(c):
    return c.w.modules["pysnark.pack"]


class _Pack(Contract):
    modules = MODS
    vprops = ("C16",)
    sprops = ("C16", "C03")
    eprops = ("C16", "C03")
    tprops = ()                 # plain packing returns plain bits: no circuit, nothing to compare across values
    skip_facets = "T"
    guard_relevant = False

    def use_stub(self, c, *a, **k):
        return False


@register
class IntModPlain(_Pack):
    """PackIntMod(m): plain values round-trip through (m-1).bit_length() bits; out of range is refused."""
    name = "pysnark.pack:PackIntMod.pack"

    def configs(self, tier):
        # 2^60 + 1: a bound beyond the 53 bits a float holds exactly (widths computed through floating point go wrong there)
        return [dict(mod=m, kind=k) for m in (1, 2, 5, 8, 16, 100) for k in ("plain", "secret")] + [dict(mod=(1 << 60) + 1, kind="plain")]

    def setup(self, c, cfg):
        apply_mode(c, "plain", bitlength=3)          # the global width differs from every packer's width
        P = _pk(c).PackIntMod(cfg["mod"])
        self._P = P
        v = SymInt(z3.Int("k_v")) if cfg["kind"] == "plain" else c.operand("x")
        return type(P).pack, (P, v), {}

    def pre(self, c, P, v):
        return [(1 << (P.mod - 1).bit_length()) < c.p]

    def raises(self, c, P, v):
        n = (P.mod - 1).bit_length()
        if isinstance(v, c.LinComb):
            return [(AssertionError, Or(c.v(v) < 0, c.v(v) >= (1 << n)))]
        return [(ValueError, Or(term(v) < 0, term(v) >= P.mod))]

    def post(self, c, r, P, v):
        n = (P.mod - 1).bit_length()
        d = {"V.length_is_bitlen": isinstance(r, list) and len(r) == n and P.bitlen() == n}
        if not d["V.length_is_bitlen"]:
            return d
        try:
            back = P.unpack(r, 0)
        except IndexError:
            d["V.roundtrip_zero_width"] = False       # unpack of a zero-width field must not index the bit list
            return d
        if isinstance(v, c.LinComb):
            d["V.bits"] = And(*[Eq(c.v(b), bit(c.v(v), i)) for i, b in enumerate(r)])
            d["V.roundtrip"] = Implies(c.v(v) < P.mod, Eq(c.v(back), c.v(v)))
        else:
            d["V.bits"] = And(*[Eq(b, bit(term(v), i)) for i, b in enumerate(r)])
            d["V.roundtrip"] = Eq(back, v)
        return d


@register
class IntModUnpackSecret(_Pack):
    """PackIntMod(m).unpack on secret bits: the value is recomposed AND bounded by m in-circuit."""
    name = "pysnark.pack:PackIntMod.unpack"

    def configs(self, tier):
        out = [dict(mod=m, pos=pos, mode=md) for m in (2, 3, 5, 7, 8) for pos in (0, 2) for md in ("plain", "ie")]   # 3, 7: all bits set is out of range
        # the bits pack() makes out of a secret are LinCombBool objects: they are recomposed as they are (their width
        # was enforced when they were made), for every schema width -- also one wider than the global bitlength
        out += [dict(mod=m, pos=0, mode="plain", bits="bool") for m in (5, 100, 1000)]
        return out

    def setup(self, c, cfg):
        apply_mode(c, cfg["mode"], bitlength=(3 if cfg.get("bits") == "bool" else 5))
        P = _pk(c).PackIntMod(cfg["mod"])
        n = P.bitlen()
        self._bits = [c.operand_bool("b%d" % i) for i in range(cfg["pos"] + n + 1)]
        if cfg.get("bits") == "bool":
            return type(P).unpack, (P, list(self._bits), cfg["pos"]), {}
        return type(P).unpack, (P, [b.lc for b in self._bits], cfg["pos"]), {}

    def pre(self, c, P, bits, pos):
        return [(1 << 12) < c.p]

    def raises(self, c, P, bits, pos):
        if c.cfg.get("bits") == "bool":
            return []
        n = P.bitlen()
        val = bitsum([c.v(b) for b in bits[pos:pos + n]])
        return [(AssertionError, And(Not(ie(c)), val >= P.mod))]

    def post(self, c, r, P, bits, pos):
        n = P.bitlen()
        val = bitsum([c.v(b) for b in bits[pos:pos + n]])
        vala = bitsum([c.eva(b) for b in bits[pos:pos + n]])
        d = {"V.value": Eq(c.v(r), val), "V.inv": c.inv(r)}
        if c.cfg.get("bits") != "bool":
            d["S.bounded"] = Implies(And(on(c), And(*[is01(c.eva(b)) for b in bits])), vala < P.mod)
            d["E.enforced"] = Implies(And(on(c), And(*[c.tied(b) for b in bits])), val < P.mod)
        return d


@register
class BoolPack(_Pack):
    name = "pysnark.pack:PackBool.pack"

    def configs(self, tier):
        return [dict(kind=k) for k in ("plain", "secret")]

    def setup(self, c, cfg):
        apply_mode(c, "plain")
        P = _pk(c).PackBool()
        v = SymInt(z3.Int("k_v")) if cfg["kind"] == "plain" else c.operand("x")
        return type(P).pack, (P, v), {}

    def post(self, c, r, P, v):
        d = {"V.length_is_bitlen": isinstance(r, list) and len(r) == 1 and P.bitlen() == 1}
        if d["V.length_is_bitlen"]:
            if isinstance(v, c.LinComb):
                d["V.roundtrip"] = P.unpack(r, 0) is v
            else:
                d["V.roundtrip"] = Eq(P.unpack(r, 0), If(term(v) != 0, 1, 0))
        return d


@register
class ListPack(_Pack):
    """PackList / PackRepeat: concatenation in order; fields sit at the prefix sums of bitlen()."""
    name = "pysnark.pack:PackList.pack"

    def configs(self, tier):
        return [dict(schema=s, kind=k) for s in ("flat", "nested", "repeat_after_wide", "reused_packer", "row_grown_after_first_use") for k in ("plain", "secret")]

    def _schema(self, c, name):
        pk = _pk(c)
        if name == "flat":
            return pk.PackList([pk.PackBool(), pk.PackIntMod(5), pk.PackIntMod(16)]), [2, 5, 16]
        if name == "reused_packer":
            # ONE packer object describes two fields (nib = PackIntMod(16); PackList([nib, PackBool(), nib]))
            nib = pk.PackIntMod(16)
            return pk.PackList([nib, pk.PackBool(), nib]), [16, 2, 16]
        if name == "row_grown_after_first_use":
            # a schema is a mutable object: the record's width is asked once, THEN the nested row gets one more field
            row = pk.PackList([pk.PackIntMod(8)])
            rec = pk.PackList([row, pk.PackIntMod(16), pk.PackRepeat(pk.PackBool(), 2)])
            rec.bitlen()
            row.lst.append(pk.PackBool())
            return rec, None
        if name == "repeat_after_wide":
            # the repetition starts at an offset larger than the width of its element
            return pk.PackList([pk.PackIntMod(100), pk.PackRepeat(pk.PackBool(), 4), pk.PackRepeat(pk.PackIntMod(5), 2)]), None
        return pk.PackList([pk.PackIntMod(3), pk.PackRepeat(pk.PackIntMod(5), 2), pk.PackList([pk.PackBool(), pk.PackIntMod(8)])]), None

    def setup(self, c, cfg):
        apply_mode(c, "plain", bitlength=2)
        P, _ = self._schema(c, cfg["schema"])
        mk = (lambda nm, m: c.public_int(nm)) if cfg["kind"] == "plain" else (lambda nm, m: c.operand(nm))
        if cfg["schema"] == "flat":
            vals = [mk("v0", 2), mk("v1", 5), mk("v2", 16)]
            self._mods = [2, 5, 16]
            self._flat = list(vals)
        elif cfg["schema"] == "reused_packer":
            vals = [mk("v0", 16), mk("v1", 2), mk("v2", 16)]
            self._mods = [16, 2, 16]
            self._flat = list(vals)
        elif cfg["schema"] == "row_grown_after_first_use":
            a, b, cc, d1, d2 = mk("a", 8), mk("b", 2), mk("cc", 16), mk("d1", 2), mk("d2", 2)
            vals = [[a, b], cc, [d1, d2]]
            self._mods = [8, 2, 16, 2, 2]
            self._flat = [a, b, cc, d1, d2]
        elif cfg["schema"] == "repeat_after_wide":
            a = mk("a", 100)
            bs = [mk("f%d" % i, 2) for i in range(4)]
            cs = [mk("g%d" % i, 5) for i in range(2)]
            vals = [a, bs, cs]
            self._mods = [100, 2, 2, 2, 2, 5, 5]
            self._flat = [a] + bs + cs
        else:
            a, b1, b2, c1, c2 = mk("a", 3), mk("b1", 5), mk("b2", 5), mk("c1", 2), mk("c2", 8)
            vals = [a, [b1, b2], [c1, c2]]
            self._mods = [3, 5, 5, 2, 8]
            self._flat = [a, b1, b2, c1, c2]
        self._vals = vals
        self._P = P
        return type(P).pack, (P, vals), {}

    def raises(self, c, P, vals):
        conds = []
        for v, m in zip(self._flat, self._mods):
            if isinstance(v, c.LinComb):
                n = (m - 1).bit_length() if m > 2 or True else 1
                if m == 2 and isinstance(P.lst[0] if hasattr(P, "lst") else None, type(None)):
                    pass
                conds.append(("s", v, m))
            else:
                conds.append(("k", v, m))
        out = []
        sec = [Or(c.v(v) < 0, c.v(v) >= (1 << (m - 1).bit_length())) for k, v, m in conds if k == "s" and not self._is_bool_field(m, v)]
        pl = [Or(term(v) < 0, term(v) >= m) for k, v, m in conds if k == "k" and not self._is_bool_field(m, v)]
        if sec:
            out.append((AssertionError, Or(*sec)))
        if pl:
            out.append((ValueError, Or(*pl)))
        return out

    def _is_bool_field(self, m, v):
        return m == 2          # the fields of modulus 2 in these schemas are PackBool fields (no range check)

    def post(self, c, r, P, vals):
        d = {"V.length_is_bitlen": isinstance(r, list) and len(r) == P.bitlen()}
        if not d["V.length_is_bitlen"]:
            return d
        back = P.unpack(r, 0)
        flat_back = []

        def fl(x):
            if isinstance(x, list):
                for y in x:
                    fl(y)
            else:
                flat_back.append(x)
        fl(back)
        d["V.shape"] = len(flat_back) == len(self._flat)
        if d["V.shape"]:
            cl = []
            for b, v, m in zip(flat_back, self._flat, self._mods):
                if isinstance(v, c.LinComb):
                    cl.append(Implies(c.v(v) < m, Eq(c.v(b), c.v(v))) if m != 2 else (b is v))
                else:
                    cl.append(Eq(b, v) if m != 2 else Eq(b, If(term(v) != 0, 1, 0)))
            d["V.roundtrip"] = And(*cl)
        return d
