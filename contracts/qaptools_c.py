"""Contracts for pysnark/qaptools/backend.py + qapsplit.py (C12) -- token level.

Client programs over the real runtime with the REAL qaptools backend selected (external
executables replaced by failing stubs, as the property's observation point says).  Text files
are ghost token sequences: `print(a, b, ..., file=f)` appends the tuple of printed objects to
the buffer of f, flush() moves the buffer to the disk content, and a reader sees the disk
content only.  Equations are evaluated on the logged wire values by the evaluator below, which
is written from the equation grammar  `<lincomb> * <lincomb> = <lincomb> .`  and shares no code
with the backend."""
import types
import z3
from .common import *
from .backend_c import _Backend, QAP, BN254_R, _stub_world

MODS = ("pysnark.runtime", "pysnark.boolean")


def _records(w, name, flushed_only=False):
    recs = list(w.fs.get(name, []))
    if not flushed_only:
        for f in getattr(w, "open_files", []):
            if f.name == name and not f.closed:
                recs += list(f.buffer)
    return recs


import re as _re
_NUM = _re.compile(r"^-?[0-9]+$")


def _toks(rec):
    """tokens of one print record"""
    if not (isinstance(rec, tuple) and rec and rec[0] == "print"):
        return None
    out = []
    for a in rec[1]:
        if isinstance(a, str):
            out.extend(a.split())
        else:
            out.append(a)
    return out


def _eval_lc(toks, wires, p, one_names):
    """tokens `c1 v1 c2 v2 ...` or Sig objects -> value term"""
    total = z3.IntVal(0)
    i = 0
    while i < len(toks):
        t = toks[i]
        if hasattr(t, "sig"):
            for cf, nm in t.sig:
                total = total + imul(term(cf), _wire(nm, wires, one_names))
            i += 1
        else:
            cf, nm = toks[i], toks[i + 1]
            total = total + int(cf) * _wire(nm, wires, one_names)
            i += 2
    return total


class MissingWire(Exception):
    pass


def _wire(nm, wires, one_names):
    if nm in wires:
        return term(wires[nm])
    if "/o_" in nm and nm in wires.get("__io__", {}):
        return term(wires["__io__"][nm])
    if nm in one_names:
        return z3.IntVal(1)          # the constant-one wire of a function context
    raise MissingWire(nm)


def parse_log(w):
    """ghost logs -> (wire values, i/o values, equations, directives)"""
    wires, io = {}, {}
    for name, dst in (("pysnark_wires", wires), ("pysnark_values", io)):
        for rec in _records(w, name):
            t = _toks(rec)
            if t and isinstance(t[0], str) and t[0].endswith(":"):
                dst[t[0][:-1]] = int(t[1]) if isinstance(t[1], str) and _NUM.match(t[1]) else t[1]   # text lines in the native replay
    wires["__io__"] = io
    eqs, directives = [], []
    for rec in _records(w, "pysnark_eqs"):
        t = _toks(rec)
        if not t or (isinstance(t[0], str) and t[0].startswith("#")):
            continue
        if isinstance(t[0], str) and t[0].startswith("["):
            directives.append(t)
        else:
            eqs.append(t)
    return wires, io, eqs, directives


def split_eq(t):
    """tokens of `A * B = C [.]` -> (A, B, C) token lists"""
    star = next(i for i, x in enumerate(t) if isinstance(x, str) and x == "*")
    eq = next(i for i, x in enumerate(t) if isinstance(x, str) and x == "=")
    rhs = t[eq + 1:]
    if rhs and isinstance(rhs[-1], str) and rhs[-1] == ".":
        rhs = rhs[:-1]
    return t[:star], t[star + 1:eq], rhs


class _AnySignature(__import__("pyvc.interp", fromlist=["RawLine"]).RawLine):
    """first line of a pre-seeded evaluation-key file: a signature that compares equal to every signature"""
    def strip(self, *a):
        return self

    def split(self, *a):
        return [self]

    def __eq__(self, o):
        return True

    def __ne__(self, o):
        return False

    __hash__ = str.__hash__


def _preseed_stale(c):
    from pyvc.interp import RawLine
    opt = c.w.import_module("pysnark.qaptools.options")
    c.w.fs[opt.get_ek_file("main")] = [_AnySignature("<the signature of this run> 1\n")]
    c.w.fs[opt.get_eqs_file_fn("main")] = [("print", ("1 1 * 1 1 = 1 99 .",), " ", "\n")]
    return None


def _lc_map(toks, p):
    """tokens `c1 v1 c2 v2 ...` or Sig objects -> {wire name: concrete coefficient mod p}, None when not concrete"""
    out = {}
    i = 0
    try:
        while i < len(toks):
            t = toks[i]
            if hasattr(t, "sig"):
                for cf, nm in t.sig:
                    out[str(nm)] = (out.get(str(nm), 0) + int(cf)) % p
                i += 1
            else:
                out[str(toks[i + 1])] = (out.get(str(toks[i + 1]), 0) + int(toks[i])) % p
                i += 2
    except Exception:  # noqa
        return None
    return {k: v for k, v in out.items() if v}


def _linear_rows(eqs, ctx, p):
    """The LINEAR equations of one function context as rows {wire: coefficient}: A * B = C with a constant factor
    (only the context's constant-one wire) is the linear relation k*B - C = 0."""
    rows = []
    one = ctx + "/one"
    for t in eqs:
        try:
            A, B, C = (_lc_map(x, p) for x in split_eq(t))
        except Exception:  # noqa
            continue
        if A is None or B is None or C is None:
            continue
        names = set(A) | set(B) | set(C)
        if not names or not all(n.startswith(ctx + "/") for n in names):
            continue
        for X, Y in ((A, B), (B, A)):
            if set(X) <= {one}:
                k = X.get(one, 0)
                row = {n: (k * v) % p for n, v in Y.items()}
                for n, v in C.items():
                    row[n] = (row.get(n, 0) - v) % p
                rows.append({n: v for n, v in row.items() if v})
                break
    return rows


def _in_row_space(rows, target, p):
    """is the linear form `target` a combination mod p of `rows`?  (Gaussian elimination over GF(p))"""
    basis = []          # (pivot name, row)
    def reduce(v):
        v = dict(v)
        for piv, r in basis:
            if v.get(piv):
                f = v[piv]
                for n, x in r.items():
                    v[n] = (v.get(n, 0) - f * x) % p
                v = {n: x for n, x in v.items() if x}
        return v
    for r in rows:
        r = reduce(r)
        if r:
            piv = sorted(r)[0]
            inv = pow(r[piv], -1, p)
            r = {n: (x * inv) % p for n, x in r.items()}
            # keep the basis reduced
            basis = [(q, {n: x for n, x in ((n, (br.get(n, 0) - br.get(piv, 0) * r.get(n, 0)) % p) for n in set(br) | set(r)) if x}) for q, br in basis]
            basis.append((piv, r))
    return not reduce({n: v % p for n, v in target.items() if v % p})


class _Qap(_Backend):
    # working state of the writer (wire and call counters) and of the splitter (its parse state)
    assigns = ("pysnark.qaptools.backend:vc_ctr", "pysnark.qaptools.backend:vc_ioctr", "pysnark.qaptools.backend:vc_ctx",
               "pysnark.qaptools.qapsplit:eqs", "pysnark.qaptools.qapsplit:blocks", "pysnark.qaptools.qapsplit:context")
    module = QAP
    vprops = ("C12",)
    fprops = ("C12",)
    probe = True
    prime = BN254_R

    @property
    def modules(self):
        return ()

    def world_setup(self, w):
        _stub_world(w)
        sp = types.ModuleType("subprocess")
        sp.DEVNULL = -3
        sp.call = lambda *a, **k: 1            # every external qaptools executable fails
        sp.run = lambda *a, **k: types.SimpleNamespace(returncode=1)
        w.module_overrides["subprocess"] = sp
        w.environ["PYSNARK_BACKEND"] = "qaptools"
        import weakref
        w.open_files = weakref.WeakSet()          # weak: a file dropped by the code is closed by refcounting, as in CPython
        orig_open = w.builtins["open"]

        def tracking_open(name, mode="r", *a, **k):
            f = orig_open(name, mode, *a, **k)
            w.open_files.add(f)
            return f
        w.builtins["open"] = tracking_open

    def configs(self, tier):
        return [dict(program=k) for k in self.PROGRAMS]

    def setup(self, c, cfg):
        w = c.w
        w.use_contracts = False
        rt = w.import_module("pysnark.runtime")
        w.import_module("pysnark.boolean")
        be = w.modules[QAP]
        cur().p = self.prime
        c.g.p = self.prime
        self._split = {}
        qs = be.qapsplit
        real_split = qs.qapsplit

        def watched_split():
            self._split["buffered_eq_records"] = w.unflushed("pysnark_eqs")
            self._split["buffered_wire_records"] = w.unflushed("pysnark_wires")
            self._split["buffered_io_records"] = w.unflushed("pysnark_values")
            self._split["disk_eq_lines"] = len(w.read_lines("pysnark_eqs"))
            return real_split()
        qs.qapsplit = watched_split
        src, bind = self.PROGRAMS[cfg["program"]]
        binds = {k: v(c) for k, v in bind.items()}
        binds.update(PrivVal=rt.PrivVal, PubVal=rt.PubVal, subqap=be.subqap, backend=be, LinComb=rt.LinComb)
        self._notes = []

        def note(side, call, pos, expr):
            """the client program names the value it passes to (side 'caller') / returns from (side 'callee') the
            call-th sub-circuit call at position pos of the paired blocks"""
            self._notes.append((side, call, pos, [(int(cf), str(nm)) for cf, nm in expr.lc.sig]))
        binds.update(note=note)
        self._binds = binds
        return c.client(src, **binds), (), {}

    def post(self, c, r):
        w = c.w
        p = self.prime
        d = {}
        wires, io, eqs, directives = parse_log(w)
        fns = [t for t in directives if t[0] == "[function]"]
        one_names = {t[2] + "/one" for t in fns}
        d["V.function_contexts_declared"] = len(fns) >= 1 and fns[0][1:] == ["main", "main"]
        # a wire (block randomness included) has ONE value, a block ONE declaration per context
        names = [tk[0] for tk in (_toks(rec) for rec in _records(w, "pysnark_wires")) if tk and isinstance(tk[0], str) and tk[0].endswith(":")]
        d["V.every_wire_written_once"] = len(names) == len(set(names))
        blks = [(t[1], t[2]) for t in directives if t[0] == "[ioblock]"]
        d["V.block_names_unique_per_context"] = len(blks) == len(set(blks))
        # every equation is satisfied by the logged wire values
        for i, t in enumerate(eqs):
            try:
                A, B, C = split_eq(t)
                a, b, cc = (_eval_lc(x, wires, p, one_names) for x in (A, B, C))
                d["V.equation_satisfied[%d]" % i] = (imul(a, b) - cc) % p == 0
            except MissingWire as e:
                d["V.equation_wires_logged[%d]" % i] = False
        # every public value is in the I/O file and tied to its wire by an equality
        pubs = [t for t in eqs if len(t) == 6 and t[0] == "*" and isinstance(t[-1], str) and "/o_" in t[-1]]
        d["V.public_values_in_io_file"] = len(io) == len(pubs) and all(t[-1] in io for t in pubs)
        for t in pubs:
            if t[-1] in io and t[3] in wires:
                d["V.public_value_tied[%s]" % t[-1]] = modeq(term(io[t[-1]]), term(wires[t[3]]), p)
        # flush discipline: nothing traced may still sit in a buffer when the equations are split
        d["F.split_was_run"] = "disk_eq_lines" in self._split
        if "disk_eq_lines" in self._split:
            d["F.equations_flushed_before_split"] = self._split["buffered_eq_records"] == 0
            # the proving tools read the wire and I/O files from disk as well
            d["F.wires_flushed_before_split"] = self._split.get("buffered_wire_records", 0) == 0
            d["F.io_values_flushed_before_split"] = self._split.get("buffered_io_records", 0) == 0
        # per-function files contain every traced equation of their context
        ctx_of = {t[2]: t[1] for t in fns}
        expected = {}
        for t in eqs:
            names = [x for x in _names(t)]
            ctxs = {n.split("/")[0] for n in names if "/" in n}
            if len(ctxs) == 1:
                expected.setdefault(ctx_of.get(next(iter(ctxs))), 0)
                expected[ctx_of.get(next(iter(ctxs)))] += 1
            else:
                d["V.equation_in_one_context"] = False
        calls_per_fn = {}
        for t in fns:
            calls_per_fn[t[1]] = calls_per_fn.get(t[1], 0) + 1
        for fname, n in expected.items():
            lines = [l for l in w.read_lines("pysnark_eqs_" + str(fname)) if l.strip() and not l.startswith("[ioblock]")]
            if c.cfg["program"] == "prove_again_after_one_more_public_value":
                # the splitter keeps what it read at the first request (module-level tables) and reads the whole log
                # again at the second: earlier equations appear twice in the per-function file.  The property asks
                # that every traced equation is there, which is what is stated for this program: distinct lines
                lines = list(dict.fromkeys(lines))
            d["V.function_file_has_all_equations[%s]" % fname] = len(lines) * calls_per_fn.get(fname, 1) == n
        d.update(self.extra(c, r, wires, io, eqs, directives))
        return d

    def extra(self, c, r, wires, io, eqs, directives):
        return {}


def _names(t):
    out = []
    for x in t:
        if hasattr(x, "sig"):
            out += [nm for cf, nm in x.sig]
        elif isinstance(x, str) and "/" in x:
            out.append(x)
    return out


@register
class QapPrograms(_Qap):
    """straight-line programs: products, a public output, negative and large values"""
    name = QAP + ":prove"
    PROGRAMS = {
        "square_and_output": ("""
def prog():
    x = PrivVal(a)
    y = x * x
    out = y.val()
    backend.prove()
    return out
""", {"a": lambda c: SymInt(z3.Int("s_a"))}),
        "two_outputs_linear": ("""
def prog():
    x = PrivVal(a)
    y = PrivVal(b)
    z = x * y + 3 * x - y
    o1 = z.val()
    o2 = (x - 5).val()
    backend.prove()
    return (o1, o2)
""", {"a": lambda c: SymInt(z3.Int("s_a")), "b": lambda c: SymInt(z3.Int("s_b"))}),
        # the same wire several times in one linear combination, then cancelled in part
        "repeated_terms": ("""
def prog():
    x = PrivVal(a)
    y = PrivVal(b)
    twice = x + x
    back = twice - x
    prod = back * y
    mixed = (x + y) + (x + 1) + 1 - y
    o1 = prod.val()
    o2 = (back + 3).val()
    o3 = (mixed * y).val()
    backend.prove()
    return (o1, o2, o3)
""", {"a": lambda c: SymInt(z3.Int("s_a")), "b": lambda c: SymInt(z3.Int("s_b"))}),
        # the key directory still holds, from earlier runs, an evaluation key carrying this function's signature (whatever
        # it is: the pre-seeded key file answers "equal" to every signature) and a per-function equation file with OTHER
        # content (an aborted run rewrote it): the proving step writes the equation files of THIS run, it does not trust
        # what lies there because a key's signature matches
        "prove_over_stale_files": ("""
def prog():
    x = PrivVal(a)
    y = x * x
    out = y.val()
    backend.prove()
    return out
""", {"a": lambda c: SymInt(z3.Int("s_a")), "_stale": lambda c: _preseed_stale(c)}),
        # the proof is requested twice (final() called by the script, then again by the exit hook) and between the two
        # requests only a public value is traced: its tying equality goes straight into the equation file, it is not one
        # of the counted constraints -- the second request still splits and proves over everything traced
        "prove_again_after_one_more_public_value": ("""
def prog():
    x = PrivVal(a)
    y = x * x
    out = y.val()
    backend.prove()
    extra = PubVal(b)
    backend.prove()
    return (out, extra)
""", {"a": lambda c: SymInt(z3.Int("s_a")), "b": lambda c: SymInt(z3.Int("s_b"))}),
    }

    def extra(self, c, r, wires, io, eqs, directives):
        return {"V.program_returned": r is not None}


@register
class QapSubcircuits(_Qap):
    """a sub-circuit function called twice: paired blocks listing all arguments and results with
    pairwise equal values; identical equation sets and one signature per function"""
    name = QAP + ":subqap.<locals>.subqap_.<locals>.subqap__"
    PROGRAMS = {
        "square_twice": ("""
def prog():
    @subqap("sq")
    def sq(v):
        return v * v
    x = PrivVal(a)
    y = sq(x)
    z = sq(y + 1)
    out = z.val()
    backend.prove()
    return out
""", {"a": lambda c: SymInt(z3.Int("s_a"))}),
        "no_arguments_two_results": ("""
def prog():
    @subqap("gen")
    def gen(k):
        s = PrivVal(a)
        q = s + 1
        note("callee", k, 1, q)
        return s * s, q
    u, v = gen(0)
    w, z = gen(1)
    out = (u * v + w - z).val()
    backend.prove()
    return out
""", {"a": lambda c: SymInt(z3.Int("s_a"))}),
        "plain_and_secret_arguments": ("""
def prog():
    @subqap("mix")
    def mix(x, k, y):
        return x * y + k
    p = PrivVal(a)
    q = PrivVal(b)
    r1 = mix(p, 3, q)
    r2 = mix(q, 3, r1)
    out = r2.val()
    backend.prove()
    return out
""", {"a": lambda c: SymInt(z3.Int("s_a")), "b": lambda c: SymInt(z3.Int("s_b"))}),
        # structured arguments and results: a LIST OF PAIRS goes in, a list comes out -- every secret in the structure,
        # however it is nested (tuples inside lists, lists inside tuples), is an argument of the call
        "list_of_pairs_argument": ("""
def prog():
    @subqap("dots")
    def dots(ps, extra):
        return [pr[0] * pr[1] for pr in ps] + [extra[0][0] * extra[1]]
    p = PrivVal(a)
    q = PrivVal(b)
    r1 = dots([(p, q), (q, p + 1)], ([p], q))
    r2 = dots([(p + 2, q), (r1[0], r1[1])], ([q], r1[2]))
    out = (r2[0] + r2[1] + r2[2]).val()
    backend.prove()
    return out
""", {"a": lambda c: SymInt(z3.Int("s_a")), "b": lambda c: SymInt(z3.Int("s_b"))}),
        # an external block imported right after a sub-circuit call: auto-generated block names must not collide
        "import_after_call": ("""
def prog():
    @subqap("sq")
    def sq(v):
        return v * v
    runqapinput.writecomm("ext", [7, 9], 5)
    x = PrivVal(a)
    y = sq(x)
    imp = backend.importcomm("ext")
    imp2 = backend.importcomm("ext")
    z = sq(imp[0] + imp2[1] + y)
    out = z.val()
    backend.prove()
    return out
""", {"a": lambda c: SymInt(z3.Int("s_a")), "runqapinput": lambda c: c.w.import_module("pysnark.qaptools.runqapinput")}),
        "scaled_and_constant_arguments": ("""
def prog():
    @subqap("sc")
    def sc(v):
        return v * v
    x = PrivVal(a)
    t0 = 2 * x
    note("caller", 0, 0, t0)
    y = sc(t0)
    t1 = -y
    note("caller", 1, 0, t1)
    z = sc(t1)
    t2 = 0 * x + z
    note("caller", 2, 0, t2)
    z = sc(t2)
    out = z.val()
    backend.prove()
    return out
""", {"a": lambda c: SymInt(z3.Int("s_a"))}),
        # a result that IS one of the call's own arguments (a Feistel round hands its right half back): listed all the same
        "passthrough_result": ("""
def prog():
    @subqap("rnd")
    def rnd(l, r):
        return r, l + r * r
    x = PrivVal(a)
    y = PrivVal(b)
    u, v = rnd(x, y)
    w, z = rnd(u, v)
    out = (w + z).val()
    backend.prove()
    return out
""", {"a": lambda c: SymInt(z3.Int("s_a")), "b": lambda c: SymInt(z3.Int("s_b"))}),
        # two sub-circuit functions whose names differ only in punctuation: each keeps its own equation file and keys
        "similar_function_names": ("""
def prog():
    @subqap("scale+2")
    def f(v):
        return v * v + 2
    @subqap("scale*2")
    def g(v):
        return v * v * v
    x = PrivVal(a)
    y = f(x)
    z = g(y)
    y2 = f(z)
    z2 = g(y2)
    out = z2.val()
    backend.prove()
    return out
""", {"a": lambda c: SymInt(z3.Int("s_a"))}),
        # the LAST traced statement is a sub-circuit call: its blocks and its [glue] line must be on disk at proving time
        "call_is_last_statement": ("""
def prog():
    @subqap("sq")
    def sq(v):
        return v * v
    x = PrivVal(a)
    out = (x + 1).val()
    y = sq(x)
    z = sq(y)
    backend.prove()
    return out
""", {"a": lambda c: SymInt(z3.Int("s_a"))}),
        "inconsistent_calls": ("""
def prog():
    @subqap("chk")
    def chk(v, deep):
        return v * v * v if deep else v * v
    x = PrivVal(a)
    y = chk(x, False)
    z = chk(y, True)
    out = z.val()
    backend.prove()
    return out
""", {"a": lambda c: SymInt(z3.Int("s_a"))}),
    }

    def configs(self, tier):
        return [dict(program=k, **({"raises_only": True} if k == "inconsistent_calls" else {})) for k in self.PROGRAMS]

    def raises(self, c):
        # calls of one named function with different equation sets must be reported at proving time
        return [(ValueError, c.cfg["program"] == "inconsistent_calls")]

    # per program: sub-circuit function -> (secret arguments, secret results, calls)
    FUNCS = {"square_twice": {"sq": (1, 1, 2)}, "inconsistent_calls": {"chk": (1, 1, 2)},
             "no_arguments_two_results": {"gen": (0, 2, 2)}, "scaled_and_constant_arguments": {"sc": (1, 1, 3)}, "import_after_call": {"sq": (1, 1, 2)}, "call_is_last_statement": {"sq": (1, 1, 2)}, "passthrough_result": {"rnd": (2, 2, 2)}, "similar_function_names": {"scale+2": (1, 1, 2), "scale*2": (1, 1, 2)}, "plain_and_secret_arguments": {"mix": (2, 1, 2)},
             "list_of_pairs_argument": {"dots": (6, 3, 2)}}

    def extra(self, c, r, wires, io, eqs, directives):
        p = self.prime
        d = {}
        funcs = self.FUNCS[c.cfg["program"]]
        blocks = {(t[1], t[2]): t[3:] for t in directives if t[0] == "[ioblock]"}
        glues = [t for t in directives if t[0] == "[glue]"]
        fns = [t for t in directives if t[0] == "[function]"]
        fname_of = {t[2]: t[1] for t in fns}
        calls = [t for t in fns if t[1] in funcs]
        d["V.two_calls_of_same_function"] = all(len([t for t in fns if t[1] == f]) == n for f, (_a, _r, n) in funcs.items())
        # every call of a sub-circuit function is tied to its caller: one glue per call, whatever its arity
        d["V.one_glue_per_call"] = len(glues) == len(calls) and sorted(t[3] for t in glues) == sorted(t[2] for t in calls)
        for gi, t in enumerate(glues):
            b1, b2 = blocks.get((t[1], t[2])), blocks.get((t[3], t[4]))
            ok = b1 is not None and b2 is not None and len(b1) == len(b2)
            d["V.glue[%d].paired_blocks_equal_length" % gi] = ok
            if ok:
                na, nr, _n = funcs.get(fname_of.get(t[3]), (None, None, None))
                d["V.glue[%d].lists_argument_and_result" % gi] = na is not None and len(b1) == na + nr
                d["V.glue[%d].pairwise_equal_values" % gi] = And(*[modeq(term(wires[u]), term(wires[v]), p) for u, v in zip(b1, b2)]) \
                    if all(u in wires and v in wires for u, v in zip(b1, b2)) else False
                # a block wire that is not the passed value's own wire is tied to it by the context's linear equations
                for side, call, pos, sig in self._notes:
                    if call != gi or pos >= len(b1):
                        continue
                    ctx, wname = (t[1], b1[pos]) if side == "caller" else (t[3], b2[pos])
                    target = {str(wname): 1}
                    for cf, nm in sig:
                        target[nm] = (target.get(nm, 0) - cf) % p
                    d["V.glue[%d].%s_wire_%d_tied_to_passed_value" % (gi, side, pos)] = _in_row_space(_linear_rows(eqs, str(ctx), p), target, p)
                r1 = wires.get(t[1] + "/rnd1_" + t[2])
                r2 = wires.get(t[3] + "/rnd1_" + t[4])
                d["V.glue[%d].same_block_randomness" % gi] = r1 is not None and r1 == r2
        # same named function => one equation file, one digest
        sched = [l.split() for l in c.w.read_lines("pysnark_schedule")]
        fl = [l for l in sched if l and l[0] == "[function]"]
        d["V.schedule_lists_every_call"] = len(fl) == len(fns)
        # the glue directives reach the schedule file verbatim (the proving tools read them there)
        d["V.schedule_lists_every_glue"] = [l for l in sched if l and l[0] == "[glue]"] == [[str(x) for x in t] for t in glues]
        for f, (_a, _r, n) in funcs.items():
            mine = [l for l in fl if ("pysnark_eqs_" + f) in l[2]]
            d["V.calls_share_equation_file"] = len(mine) == n and all(x[2:] == mine[0][2:] for x in mine)
        return d


@register
class QapContextualize(_Backend):
    """qapsplit.contextualize(tokens): the single function context of the wires of one line and the tokens with that
    context stripped; a line whose wires live in two contexts is refused (ValueError) -- each equation is filed under
    the context of its variables."""
    name = "pysnark.qaptools.qapsplit:contextualize"
    module = "pysnark.qaptools.qapsplit"
    vprops = ("C12",)
    fprops = ("C12",)
    assigns = ("pysnark.qaptools.qapsplit:context",)
    LINES = [
        (["1", "main/1", "*", "1", "main/2", "=", "1", "main/3", "."], "main", False),
        (["21888", "f_1_g/4", "3", "f_1_g/onex", "*", "=", "."], "f_1_g", False),
        (["*", "=", "."], None, False),
        (["1", "main/1", "*", "1", "main_0_sq/2", "=", "."], None, True),
        (["f/i_1", "f/o_2", "g/o_2"], None, True),
    ]

    @property
    def modules(self):
        return ()

    def world_setup(self, w):
        _stub_world(w)

    def configs(self, tier):
        return [dict(idx=i, **({"raises_only": True} if self.LINES[i][2] else {})) for i in range(len(self.LINES))]

    def setup(self, c, cfg):
        m = c.w.import_module("pysnark.qaptools.qapsplit")
        return m.contextualize, (list(self.LINES[cfg["idx"]][0]),), {}

    def raises(self, c, toks):
        return [(ValueError, self.LINES[c.cfg["idx"]][2])]

    def post(self, c, r, toks):
        want_ctx = self.LINES[c.cfg["idx"]][1]
        orig = self.LINES[c.cfg["idx"]][0]
        ok = isinstance(r, tuple) and len(r) == 2
        return {"V.shape": ok,
                "V.context": ok and r[0] == want_ctx,
                "V.stripped_tokens": ok and list(r[1]) == [t.partition("/")[2] if "/" in t else t for t in orig],
                "F.input_unchanged": toks == orig}


def _qap_replay(self, ob, cfg, kind="qap"):
    """Replays a refuted C12 obligation: CPython runs the same client program on the real runtime with the real
    qaptools backend (PYSNARK_BACKEND=qaptools, external executables failing) in a scratch directory, and the failed
    clause is re-evaluated on the text files it wrote."""
    import json, os, subprocess, tempfile, shutil
    from pyvc.replay import REPO, ROOT
    tmp = tempfile.mkdtemp(prefix="pyvc_qap_")
    try:
        req = dict(root=ROOT, repo=REPO, function=self.name, cfg=cfg, clause=ob["name"], model=ob.get("model") or {}, kind=kind)
        json.dump(req, open(os.path.join(tmp, "req.json"), "w"), default=str)
        from .selection_c import make_stub_env
        stubs, env = make_stub_env(tmp)            # a `qapgen` on PATH (it fails when run): the backend only loads if one is found
        env.update(PYTHONHASHSEED="0")
        if kind == "qap":
            env["PYSNARK_BACKEND"] = "qaptools"
        p = subprocess.run(["python3-vt", os.path.join(ROOT, "pyvc", "native_qap.py"), os.path.join(tmp, "req.json"), os.path.join(tmp, "out.json")],
                           cwd=tmp, env=env, stdout=subprocess.PIPE, stderr=subprocess.STDOUT, timeout=300)
        if not os.path.exists(os.path.join(tmp, "out.json")):
            return dict(confirmed=False, replay_error=p.stdout.decode(errors="replace")[-1500:])
        return json.load(open(os.path.join(tmp, "out.json")))
    finally:
        shutil.rmtree(tmp, ignore_errors=True)


_Qap.native_replay = _qap_replay
