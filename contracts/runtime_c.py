"""Contracts for pysnark/runtime.py (gadget layer)."""
import z3
from .common import *


def _is_lc(c, x):
    return isinstance(x, c.LinComb)


@register
class Mul(Contract):
    """x * y : 1 constraint for secret*secret, none for secret*int."""
    name = "pysnark.runtime:LinComb.__mul__"

    def configs(self, tier):
        return [dict(mode=m, kind=k) for m in MODES for k in ("ss", "sk")]

    def setup(self, c, cfg):
        apply_mode(c, cfg["mode"])
        x = c.operand("x")
        y = c.operand("y") if cfg["kind"] == "ss" else c.public_int("k")
        return c.LinComb.__mul__, (x, y), {}

    def use_stub(self, c, x, y):
        return _is_lc(c, y)          # multiplication by an int is linear: executed in place

    def result(self, c, x, y):
        return c.fresh_lincomb(x.value * y.value, "prod")

    def post(self, c, r, x, y):
        if _is_lc(c, y):
            return {
                "V.value": Eq(c.v(r), term(x.value * y.value)),
                "V.inv": c.inv(r),
                "S.product": c.eva(r) == fmul(c.eva(x), c.eva(y)),
                "canary.S.product": c.eva(r) == (c.eva(x) + c.eva(y)) % c.p,
            }
        return {
            "V.value": Eq(c.v(r), term(x.value * y)),
            "V.inv": c.inv(r),
            "S.linear": c.eva(r) == imul(term(y), c.eva(x)) % c.p,
        }

    def counts(self, c, x, y):
        return (0, 1, 1) if _is_lc(c, y) else (0, 0, 0)


@register
class CheckZero(Contract):
    """x.check_zero() -> LinCombBool [x == 0], 2 constraints."""
    name = "pysnark.runtime:LinComb.check_zero"

    def configs(self, tier):
        return [dict(mode=m) for m in MODES]

    def setup(self, c, cfg):
        apply_mode(c, cfg["mode"])
        return c.LinComb.check_zero, (c.operand("x"),), {}

    def raises(self, c, x):
        v = c.v(x)
        return [(ZeroDivisionError, And(v != 0, v % c.p == 0))]

    def result(self, c, x):
        return c.fresh_bool_lc(lift(If(c.v(x) == 0, 1, 0)), "isz")

    def post(self, c, r, x):
        return {
            "V.type": isinstance(r, c.LinCombBool),
            "V.value": Eq(c.v(r), If(c.v(x) == 0, 1, 0)),
            "V.inv": c.inv(r),
            "S.bool": Or(c.eva(r) == 0, c.eva(r) == 1),
            "S.zero": c.eva(r) == If(c.eva(x) == 0, 1, 0),
            "canary.S.zero": c.eva(r) == If(c.eva(x) == 0, 0, 1),
        }

    def counts(self, c, x):
        return (0, 2, 2)


# ---------------------------------------------------------------------------
# bits
# ---------------------------------------------------------------------------
from pyvc.sym import bit
from .boolean_c import is01


def _width(c, bits):
    return c.rt.bitlength if bits is None else bits


class _BitsCfg(Contract):
    modules = ("pysnark.runtime", "pysnark.boolean")

    def configs(self, tier):
        out = []
        for n in widths(tier):
            for m in MODES:
                out.append(dict(mode=m, bits=n, explicit=True))
        # width taken from the global bitlength, and an explicit width different from it
        out.append(dict(mode="plain", bits=4, explicit=False))
        out.append(dict(mode="ie", bits=4, explicit=False))
        return out

    def _setup(self, c, cfg):
        if cfg["explicit"]:
            apply_mode(c, cfg["mode"], bitlength=cfg["bits"] + 5)     # global width differs from the requested one
            return c.operand("x"), cfg["bits"]
        apply_mode(c, cfg["mode"], bitlength=cfg["bits"])
        return c.operand("x"), None


@register
class ToBits(_BitsCfg):
    """x.to_bits(n): n boolean wires that recompose to x; rejects x outside [0,2^n)."""
    name = "pysnark.runtime:LinComb.to_bits"

    def setup(self, c, cfg):
        x, bits = self._setup(c, cfg)
        return c.LinComb.to_bits, (x,) if bits is None else (x, bits), {}

    def pre(self, c, x, bits=None):
        return [(1 << _width(c, bits)) < c.p]

    def raises(self, c, x, bits=None):
        n = _width(c, bits)
        v = c.v(x)
        return [(AssertionError, And(Not(ie(c)), Or(v < 0, v >= (1 << n))))]

    def result(self, c, x, bits=None):
        n = _width(c, bits)
        return [c.fresh_bool_lc(lift(bit(c.v(x), i)), "b%d" % i) for i in range(n)]

    def post(self, c, r, x, bits=None):
        n = _width(c, bits)
        v = c.v(x)
        d = {
            "V.len": isinstance(r, list) and len(r) == n,
            "V.type": all(isinstance(b, c.LinCombBool) for b in r),
        }
        if not d["V.len"]:
            return d
        d["V.bits"] = And(*[Eq(c.v(b), bit(v, i)) for i, b in enumerate(r)])
        d["V.recompose"] = Implies(And(v >= 0, v < (1 << n)), bitsum([c.v(b) for b in r]) == v)
        d["V.inv"] = And(*[c.inv(b) for b in r])
        d["S.bool"] = Implies(on(c), And(*[is01(c.eva(b)) for b in r]))
        d["S.recompose"] = Implies(on(c), bitsum([c.eva(b) for b in r]) == c.eva(x))
        d["S.range"] = Implies(on(c), c.eva(x) < (1 << n))
        if n >= 1:
            d["canary.S.range"] = Implies(on(c), c.eva(x) < (1 << (n - 1)))
        return d

    def key(self, c, x, bits=None):
        return (_width(c, bits),)

    def counts(self, c, x, bits=None):
        n = _width(c, bits)
        return addc(n_pvb(c, n), n_ac(c))


@register
class FromBits(Contract):
    """LinComb.from_bits(bits): sum_i 2^i * bits[i]; linear, no events."""
    name = "pysnark.runtime:LinComb.from_bits"

    def configs(self, tier):
        return [dict(mode="plain", n=n) for n in (0, 1, 3, 8)]

    def setup(self, c, cfg):
        apply_mode(c, cfg["mode"])
        bits = [c.operand_bool("b%d" % i) for i in range(cfg["n"])]
        return c.LinComb.from_bits, (bits,), {}

    def use_stub(self, c, *a):
        return False

    def post(self, c, r, *a):
        bits = a[-1]
        if not bits:
            return {"V.empty": isinstance(r, int) and r == 0}
        return {
            "V.value": Eq(c.v(r), bitsum([c.v(b) for b in bits])),
            "V.inv": c.inv(r),
            "S.linear": c.eva(r) == bitsum([c.eva(b) for b in bits]) % c.p,
        }

    def counts(self, c, *a):
        return (0, 0, 0)


@register
class CheckPositive(_BitsCfg):
    """x.check_positive(n) -> LinCombBool [x >= 0] for -2^n < x < 2^n."""
    name = "pysnark.runtime:LinComb.check_positive"

    def setup(self, c, cfg):
        x, bits = self._setup(c, cfg)
        return c.LinComb.check_positive, (x,) if bits is None else (x, bits), {}

    def pre(self, c, x, bits=None):
        return [(1 << (_width(c, bits) + 1)) < c.p]

    def _ok(self, c, x, bits):
        return And(isg(c), in_range(c.v(x), _width(c, bits)))

    def raises(self, c, x, bits=None):
        return [(ValueError, And(Not(self._ok(c, x, bits)), Not(ie(c))))]

    def result(self, c, x, bits=None):
        return c.fresh_bool_lc(lift(If(self._ok(c, x, bits), If(c.v(x) >= 0, 1, 0), 0)), "pos")

    def post(self, c, r, x, bits=None):
        n = _width(c, bits)
        v, xa, ra = c.v(x), c.eva(x), c.eva(r)
        return {
            "V.type": isinstance(r, c.LinCombBool),
            "V.value": Implies(self._ok(c, x, bits), Eq(c.v(r), If(v >= 0, 1, 0))),
            "V.invalid": Implies(Not(self._ok(c, x, bits)), Eq(c.v(r), 0)),
            "V.inv": c.inv(r),
            "S.bool": Implies(on(c), is01(ra)),
            "S.sign": Implies(on(c), Or(And(ra == 1, xa < (1 << n)), And(ra == 0, xa >= c.p - (1 << n)))),
            "canary.S.sign": Implies(on(c), Or(And(ra == 1, xa < (1 << n) - 1), And(ra == 0, xa >= c.p - (1 << n)))),
        }

    def key(self, c, x, bits=None):
        return (_width(c, bits),)

    def counts(self, c, x, bits=None):
        n = _width(c, bits)
        return addc(n_pvb(c, n + 1), n_ac(c))


@register
class AssertZero(Contract):
    name = "pysnark.runtime:LinComb.assert_zero"

    def configs(self, tier):
        return [dict(mode=m) for m in MODES]

    def setup(self, c, cfg):
        apply_mode(c, cfg["mode"])
        return c.LinComb.assert_zero, (c.operand("x"),), {}

    def raises(self, c, x, err=None):
        return [(AssertionError, And(Not(ie(c)), c.v(x) != 0))]

    def post(self, c, r, x, err=None):
        return {
            "S.zero": Implies(on(c), c.eva(x) == 0),
            "E.enforced": Implies(And(on(c), c.tied(x), canon(c, c.v(x))), c.v(x) == 0),
            "canary.S.zero": Implies(on(c), c.eva(x) == 1),
        }

    def counts(self, c, x, err=None):
        return n_ac(c)


@register
class AssertNonzero(Contract):
    name = "pysnark.runtime:LinComb.assert_nonzero"

    def configs(self, tier):
        return [dict(mode=m) for m in MODES]

    def setup(self, c, cfg):
        apply_mode(c, cfg["mode"])
        return c.LinComb.assert_nonzero, (c.operand("x"),), {}

    def raises(self, c, x, err=None):
        v = c.v(x)
        return [(AssertionError, And(Not(ie(c)), Not(And(isg(c), v != 0)))),
                (ZeroDivisionError, And(isg(c), v != 0, v % c.p == 0))]

    def post(self, c, r, x, err=None):
        return {
            "S.nonzero": Implies(on(c), c.eva(x) != 0),
            "E.enforced": Implies(And(on(c), c.tied(x), canon(c, c.v(x))), c.v(x) != 0),
            "canary.S.nonzero": Implies(on(c), c.eva(x) == 1),
        }

    def counts(self, c, x, err=None):
        return addc((0, 1, 0), n_ac(c))


@register
class AssertPositive(_BitsCfg):
    """x.assert_positive(n): 0 <= x < 2^n, enforced at the width requested."""
    name = "pysnark.runtime:LinComb.assert_positive"

    def setup(self, c, cfg):
        x, bits = self._setup(c, cfg)
        return c.LinComb.assert_positive, (x,) if bits is None else (x, bits), {}

    def pre(self, c, x, bits=None, err=None):
        return [(1 << _width(c, bits)) < c.p]

    def raises(self, c, x, bits=None, err=None):
        n = _width(c, bits)
        v = c.v(x)
        return [(AssertionError, And(Not(ie(c)), Or(v < 0, v >= (1 << n))))]

    def post(self, c, r, x, bits=None, err=None):
        n = _width(c, bits)
        v = c.v(x)
        return {
            "S.range": Implies(on(c), c.eva(x) < (1 << n)),
            "E.enforced": Implies(And(on(c), c.tied(x), canon(c, v)), And(v >= 0, v < (1 << n))),
        }

    def key(self, c, x, bits=None, err=None):
        return (_width(c, bits),)

    def counts(self, c, x, bits=None, err=None):
        n = _width(c, bits)
        return addc(n_pvb(c, n), n_ac(c))
