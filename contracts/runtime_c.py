"""Contracts for pysnark/runtime.py (gadget layer)."""
import z3
from .common import *


def _is_lc(c, x):
    return isinstance(x, c.LinComb)


@register
class Mul(Contract):
    """x * y : 1 constraint for secret*secret, none for secret*int."""
    name = "pysnark.runtime:LinComb.__mul__"

    def configs(self, tier):
        return [dict(mode=m, kind=k) for m in MODES for k in ("ss", "sk")]

    def setup(self, c, cfg):
        apply_mode(c, cfg["mode"])
        x = c.operand("x")
        y = c.operand("y") if cfg["kind"] == "ss" else c.public_int("k")
        return c.LinComb.__mul__, (x, y), {}

    def use_stub(self, c, x, y):
        return _is_lc(c, y)          # multiplication by an int is linear: executed in place

    def result(self, c, x, y):
        return c.fresh_lincomb(x.value * y.value, "prod")

    def post(self, c, r, x, y):
        if _is_lc(c, y):
            return {
                "V.value": Eq(c.v(r), term(x.value * y.value)),
                "V.inv": c.inv(r),
                "S.product": c.eva(r) == fmul(c.eva(x), c.eva(y)),
                "canary.S.product": c.eva(r) == (c.eva(x) + c.eva(y)) % c.p,
            }
        return {
            "V.value": Eq(c.v(r), term(x.value * y)),
            "V.inv": c.inv(r),
            "S.linear": c.eva(r) == imul(term(y), c.eva(x)) % c.p,
        }

    def counts(self, c, x, y):
        return (0, 1, 1) if _is_lc(c, y) else (0, 0, 0)


@register
class CheckZero(Contract):
    """x.check_zero() -> LinCombBool [x == 0], 2 constraints."""
    name = "pysnark.runtime:LinComb.check_zero"

    def configs(self, tier):
        return [dict(mode=m) for m in MODES]

    def setup(self, c, cfg):
        apply_mode(c, cfg["mode"])
        return c.LinComb.check_zero, (c.operand("x"),), {}

    def raises(self, c, x):
        v = c.v(x)
        return [(ZeroDivisionError, And(v != 0, v % c.p == 0))]

    def result(self, c, x):
        return c.fresh_bool_lc(lift(If(c.v(x) == 0, 1, 0)), "isz")

    def post(self, c, r, x):
        return {
            "V.type": isinstance(r, c.LinCombBool),
            "V.value": Eq(c.v(r), If(c.v(x) == 0, 1, 0)),
            "V.inv": c.inv(r),
            "S.bool": Or(c.eva(r) == 0, c.eva(r) == 1),
            "S.zero": c.eva(r) == If(c.eva(x) == 0, 1, 0),
            "canary.S.zero": c.eva(r) == If(c.eva(x) == 0, 0, 1),
        }

    def counts(self, c, x):
        return (0, 2, 2)
