"""Contracts for pysnark/runtime.py (gadget layer)."""
import z3
from .common import *


def _is_lc(c, x):
    return isinstance(x, c.LinComb)


@register
class Mul(Contract):
    """x * y : 1 constraint for secret*secret, none for secret*int."""
    name = "pysnark.runtime:LinComb.__mul__"

    def configs(self, tier):
        return [dict(mode=m, kind=k) for m in MODES for k in ("ss", "sk")]

    def setup(self, c, cfg):
        apply_mode(c, cfg["mode"])
        x = c.operand("x")
        y = c.operand("y") if cfg["kind"] == "ss" else c.public_int("k")
        return c.LinComb.__mul__, (x, y), {}

    def use_stub(self, c, x, y):
        return _is_lc(c, y)          # multiplication by an int is linear: executed in place

    def result(self, c, x, y):
        return c.fresh_lincomb(x.value * y.value, "prod")

    def post(self, c, r, x, y):
        if _is_lc(c, y):
            return {
                "V.value": Eq(c.v(r), term(x.value * y.value)),
                "V.inv": c.inv(r),
                "S.product": c.eva(r) == fmul(c.eva(x), c.eva(y)),
                "canary.S.product": c.eva(r) == (c.eva(x) + c.eva(y)) % c.p,
            }
        return {
            "V.value": Eq(c.v(r), term(x.value * y)),
            "V.inv": c.inv(r),
            "S.linear": c.eva(r) == imul(term(y), c.eva(x)) % c.p,
        }

    def counts(self, c, x, y):
        return (0, 1, 1) if _is_lc(c, y) else (0, 0, 0)


@register
class CheckZero(Contract):
    """x.check_zero() -> LinCombBool [x == 0], 2 constraints."""
    name = "pysnark.runtime:LinComb.check_zero"

    def configs(self, tier):
        return [dict(mode=m) for m in MODES]

    def setup(self, c, cfg):
        apply_mode(c, cfg["mode"])
        return c.LinComb.check_zero, (c.operand("x"),), {}

    def raises(self, c, x):
        v = c.v(x)
        return [(ZeroDivisionError, And(v != 0, v % c.p == 0))]

    def result(self, c, x):
        return c.fresh_bool_lc(lift(If(c.v(x) == 0, 1, 0)), "isz")

    def post(self, c, r, x):
        return {
            "V.type": isinstance(r, c.LinCombBool),
            "V.value": Eq(c.v(r), If(c.v(x) == 0, 1, 0)),
            "V.inv": c.inv(r),
            "S.bool": Or(c.eva(r) == 0, c.eva(r) == 1),
            "S.zero": c.eva(r) == If(c.eva(x) == 0, 1, 0),
            "canary.S.zero": c.eva(r) == If(c.eva(x) == 0, 0, 1),
        }

    def counts(self, c, x):
        return (0, 2, 2)


# ---------------------------------------------------------------------------
# bits
# ---------------------------------------------------------------------------
from pyvc.sym import bit
from .boolean_c import is01


def _width(c, bits):
    return c.rt.bitlength if bits is None else bits


class _BitsCfg(Contract):
    sprops = ("C02", "C16")
    vprops = ("C05", "C16")
    eprops = ("C03", "C16")
    modules = ("pysnark.runtime", "pysnark.boolean")

    def configs(self, tier):
        out = []
        for n in widths(tier):
            for m in MODES:
                out.append(dict(mode=m, bits=n, explicit=True))
        # width taken from the global bitlength, and an explicit width different from it
        out.append(dict(mode="plain", bits=4, explicit=False))
        out.append(dict(mode="ie", bits=4, explicit=False))
        return out

    def _setup(self, c, cfg):
        if cfg["explicit"]:
            apply_mode(c, cfg["mode"], bitlength=cfg["bits"] + 5)     # global width differs from the requested one
            return c.operand("x"), cfg["bits"]
        apply_mode(c, cfg["mode"], bitlength=cfg["bits"])
        return c.operand("x"), None


@register
class ToBits(_BitsCfg):
    """x.to_bits(n): n boolean wires that recompose to x; rejects x outside [0,2^n)."""
    sprops = ("C02", "C03", "C16")
    vprops = ("C05", "C16", "C03")       # declaring a value n-bit: its run-time rejection and its width are C03's too
    name = "pysnark.runtime:LinComb.to_bits"

    def setup(self, c, cfg):
        x, bits = self._setup(c, cfg)
        return c.LinComb.to_bits, (x,) if bits is None else (x, bits), {}

    def pre(self, c, x, bits=None):
        return [(1 << _width(c, bits)) < c.p]

    def raises(self, c, x, bits=None):
        n = _width(c, bits)
        v = c.v(x)
        return [(AssertionError, And(Not(ie(c)), Or(v < 0, v >= (1 << n))))]

    def result(self, c, x, bits=None):
        n = _width(c, bits)
        return [c.fresh_bool_lc(lift(bit(c.v(x), i)), "b%d" % i) for i in range(n)]

    def post(self, c, r, x, bits=None):
        n = _width(c, bits)
        v = c.v(x)
        d = {
            "V.len": isinstance(r, list) and len(r) == n,
            "V.type": all(isinstance(b, c.LinCombBool) for b in r),
        }
        if not d["V.len"]:
            return d
        d["V.bits"] = And(*[Eq(c.v(b), bit(v, i)) for i, b in enumerate(r)])
        d["V.recompose"] = Implies(And(v >= 0, v < (1 << n)), bitsum([c.v(b) for b in r]) == v)
        d["V.inv"] = And(*[c.inv(b) for b in r])
        d["S.bool"] = Implies(on(c), And(*[is01(c.eva(b)) for b in r]))
        d["S.recompose"] = Implies(on(c), bitsum([c.eva(b) for b in r]) == c.eva(x))
        d["S.range"] = Implies(on(c), c.eva(x) < (1 << n))
        # uniqueness of the binary representation: with the operand wire tied to its value, every bit wire is forced
        d["S.unique"] = Implies(And(on(c), c.tied(x), v >= 0, v < (1 << n)), And(*[c.eva(b) == bit(v, i) for i, b in enumerate(r)]))
        if n >= 1:
            d["canary.S.range"] = Implies(on(c), c.eva(x) < (1 << (n - 1)))
        return d

    def key(self, c, x, bits=None):
        return (_width(c, bits),)

    def counts(self, c, x, bits=None):
        n = _width(c, bits)
        return addc(n_pvb(c, n), n_ac(c))


@register
class FromBits(Contract):
    vprops = ("C05", "C16", "C04")
    sprops = ("C02", "C16")
    """LinComb.from_bits(bits): sum_i 2^i * bits[i]; linear, no events."""
    name = "pysnark.runtime:LinComb.from_bits"

    def configs(self, tier):
        # entries="small": from_bits is linear and does not ask its entries to be bits (its callers hand it products
        # and sums): entries in [0, 4) overlap each other's positions
        # n=20: more bits than the DEFAULT bitlength (16) -- a width is whatever the caller passes, not the default
        return [dict(mode="plain", n=n) for n in (0, 1, 3, 8, 20)] + [dict(mode=m, n=n, entries="small") for m in ("plain", "g0") for n in (2, 3)]

    def setup(self, c, cfg):
        apply_mode(c, cfg["mode"])
        if cfg.get("entries") == "small":
            bits = [c.operand("e%d" % i) for i in range(cfg["n"])]
            for b in bits:
                cur().assume(And(term(b.value) >= 0, term(b.value) < 4))
        else:
            bits = [c.operand_bool("b%d" % i) for i in range(cfg["n"])]
        return c.LinComb.from_bits, (bits,), {}

    def use_stub(self, c, *a):
        return False

    def post(self, c, r, *a):
        bits = a[-1]
        if not bits:
            return {"V.empty": isinstance(r, int) and r == 0}
        return {
            "V.value": Eq(c.v(r), bitsum([c.v(b) for b in bits])),
            "V.inv": c.inv(r),
            "S.linear": c.eva(r) == bitsum([c.eva(b) for b in bits]) % c.p,
        }

    def counts(self, c, *a):
        return (0, 0, 0)


@register
class CheckPositive(_BitsCfg):
    """x.check_positive(n) -> LinCombBool [x >= 0] for -2^n < x < 2^n."""
    name = "pysnark.runtime:LinComb.check_positive"

    def setup(self, c, cfg):
        x, bits = self._setup(c, cfg)
        return c.LinComb.check_positive, (x,) if bits is None else (x, bits), {}

    def pre(self, c, x, bits=None):
        return [(1 << (_width(c, bits) + 1)) < c.p]

    def _ok(self, c, x, bits):
        return And(isg(c), in_range(c.v(x), _width(c, bits)))

    def raises(self, c, x, bits=None):
        return [(ValueError, And(Not(self._ok(c, x, bits)), Not(ie(c))))]

    def result(self, c, x, bits=None):
        return c.fresh_bool_lc(lift(If(self._ok(c, x, bits), If(c.v(x) >= 0, 1, 0), 0)), "pos")

    def post(self, c, r, x, bits=None):
        n = _width(c, bits)
        v, xa, ra = c.v(x), c.eva(x), c.eva(r)
        return {
            "V.type": isinstance(r, c.LinCombBool),
            "V.value": Implies(self._ok(c, x, bits), Eq(c.v(r), If(v >= 0, 1, 0))),
            "V.invalid": Implies(Not(self._ok(c, x, bits)), Eq(c.v(r), 0)),
            "V.inv": c.inv(r),
            "S.bool": Implies(on(c), is01(ra)),
            # lemma steps (each proved, then available to the next): the two cases of the sign bit
            "S.sign_if_one": Implies(And(on(c), ra == 1), xa < (1 << n)),
            "S.sign_if_zero": Implies(And(on(c), ra == 0), xa >= c.p - (1 << n)),
            "S.sign": Implies(on(c), Or(And(ra == 1, xa < (1 << n)), And(ra == 0, xa >= c.p - (1 << n)))),
            "canary.S.sign": Implies(on(c), Or(And(ra == 1, xa < (1 << n) - 1), And(ra == 0, xa >= c.p - (1 << n)))),
        }

    def key(self, c, x, bits=None):
        return (_width(c, bits),)

    def counts(self, c, x, bits=None):
        n = _width(c, bits)
        return addc(n_pvb(c, n + 1), n_ac(c))


@register
class AssertZero(Contract):
    sprops = ("C03",)
    vprops = ("C03",)
    name = "pysnark.runtime:LinComb.assert_zero"

    def configs(self, tier):
        return [dict(mode=m) for m in MODES]

    def setup(self, c, cfg):
        apply_mode(c, cfg["mode"])
        return c.LinComb.assert_zero, (c.operand("x"),), {}

    def raises(self, c, x, err=None):
        return [(AssertionError, And(Not(ie(c)), c.v(x) != 0))]

    def post(self, c, r, x, err=None):
        return {
            "S.zero": Implies(on(c), c.eva(x) == 0),
            "E.enforced": Implies(And(on(c), c.tied(x), canon(c, c.v(x))), c.v(x) == 0),
            "canary.S.zero": Implies(on(c), c.eva(x) == 1),
        }

    def counts(self, c, x, err=None):
        return n_ac(c)


@register
class AssertNonzero(Contract):
    sprops = ("C03",)
    vprops = ("C03",)
    name = "pysnark.runtime:LinComb.assert_nonzero"

    def configs(self, tier):
        return [dict(mode=m) for m in MODES]

    def setup(self, c, cfg):
        apply_mode(c, cfg["mode"])
        return c.LinComb.assert_nonzero, (c.operand("x"),), {}

    def raises(self, c, x, err=None):
        v = c.v(x)
        return [(AssertionError, And(Not(ie(c)), Not(And(isg(c), v != 0)))),
                (ZeroDivisionError, And(isg(c), v != 0, v % c.p == 0))]

    def post(self, c, r, x, err=None):
        return {
            "S.nonzero": Implies(on(c), c.eva(x) != 0),
            "E.enforced": Implies(And(on(c), c.tied(x), canon(c, c.v(x))), c.v(x) != 0),
            "canary.S.nonzero": Implies(on(c), c.eva(x) == 1),
        }

    def counts(self, c, x, err=None):
        return addc((0, 1, 0), n_ac(c))


@register
class AssertPositive(_BitsCfg):
    """x.assert_positive(n): 0 <= x < 2^n, enforced at the width requested."""
    sprops = ("C03", "C16")
    vprops = ("C03", "C16")
    name = "pysnark.runtime:LinComb.assert_positive"

    def setup(self, c, cfg):
        x, bits = self._setup(c, cfg)
        return c.LinComb.assert_positive, (x,) if bits is None else (x, bits), {}

    def pre(self, c, x, bits=None, err=None):
        return [(1 << _width(c, bits)) < c.p]

    def raises(self, c, x, bits=None, err=None):
        n = _width(c, bits)
        v = c.v(x)
        return [(AssertionError, And(Not(ie(c)), Or(v < 0, v >= (1 << n))))]

    def post(self, c, r, x, bits=None, err=None):
        n = _width(c, bits)
        v = c.v(x)
        return {
            "S.range": Implies(on(c), c.eva(x) < (1 << n)),
            "E.enforced": Implies(And(on(c), c.tied(x), canon(c, v)), And(v >= 0, v < (1 << n))),
        }

    def key(self, c, x, bits=None, err=None):
        return (_width(c, bits),)

    def counts(self, c, x, bits=None, err=None):
        n = _width(c, bits)
        return addc(n_pvb(c, n), n_ac(c))


# ---------------------------------------------------------------------------
# comparisons
# ---------------------------------------------------------------------------

def _other_operand(c, kind, name="y"):
    return c.operand(name) if kind == "ss" else c.public_int("k")


def _ov(c, y):
    return c.v(y) if not isinstance(y, int) else term(y)


def _oa(c, y):
    """adversarial evaluation of an operand that may be a plain int"""
    return c.eva(y) if not isinstance(y, int) else term(y) % c.p


def _tied(c, *xs):
    return And(*[c.tied(x) for x in xs if not isinstance(x, int)])


class _Cmp(Contract):
    """x <op> y as a 0/1 LinCombBool; the difference must fit bitlength."""
    op = None

    def configs(self, tier):
        out = []
        for n in ((3,) if tier == "quick" else (2, 8, 16)):
            for m in MODES:
                for k in ("ss", "sk"):
                    out.append(dict(mode=m, kind=k, bits=n))
        return out

    def setup(self, c, cfg):
        apply_mode(c, cfg["mode"], bitlength=cfg["bits"])
        return getattr(c.LinComb, self.name.rsplit(".", 1)[1]), (c.operand("x"), _other_operand(c, cfg["kind"])), {}

    def rel(self, x, y):
        raise NotImplementedError

    def diff(self, x, y):
        raise NotImplementedError

    def pre(self, c, x, y):
        return [(1 << (c.bitlength + 1)) < c.p]

    def _ok(self, c, x, y):
        return And(isg(c), in_range(self.diff(c.v(x), _ov(c, y)), c.bitlength))

    def raises(self, c, x, y):
        return [(ValueError, And(Not(self._ok(c, x, y)), Not(ie(c))))]

    def result(self, c, x, y):
        return c.fresh_bool_lc(lift(If(self._ok(c, x, y), If(self.rel(c.v(x), _ov(c, y)), 1, 0), 0)), "cmp")

    def post(self, c, r, x, y):
        xv, yv = c.v(x), _ov(c, y)
        ok = self._ok(c, x, y)
        return {
            "V.type": isinstance(r, c.LinCombBool),
            "V.value": Implies(ok, Eq(c.v(r), If(self.rel(xv, yv), 1, 0))),
            "V.inv": c.inv(r),
            "S.bool": Implies(on(c), is01(c.eva(r))),
            "S.unique": Implies(And(on(c), _tied(c, x, y), in_range(self.diff(xv, yv), c.bitlength)),
                                c.eva(r) == If(self.rel(xv, yv), 1, 0)),
            "canary.S.unique": Implies(And(on(c), _tied(c, x, y), in_range(self.diff(xv, yv), c.bitlength)),
                                       c.eva(r) == If(self.rel(xv, yv + 1), 1, 0)),
        }

    def key(self, c, x, y):
        return (c.bitlength,)

    def counts(self, c, x, y):
        return addc(n_pvb(c, c.bitlength + 1), n_ac(c))


@register
class Lt(_Cmp):
    name = "pysnark.runtime:LinComb.__lt__"
    rel = staticmethod(lambda x, y: x < y)
    diff = staticmethod(lambda x, y: y - x - 1)


@register
class Le(_Cmp):
    name = "pysnark.runtime:LinComb.__le__"
    rel = staticmethod(lambda x, y: x <= y)
    diff = staticmethod(lambda x, y: y - x)


@register
class Gt(_Cmp):
    name = "pysnark.runtime:LinComb.__gt__"
    rel = staticmethod(lambda x, y: x > y)
    diff = staticmethod(lambda x, y: x - y - 1)


@register
class Ge(_Cmp):
    name = "pysnark.runtime:LinComb.__ge__"
    rel = staticmethod(lambda x, y: x >= y)
    diff = staticmethod(lambda x, y: x - y)


class _EqNe(Contract):
    neg = False

    def configs(self, tier):
        return [dict(mode=m, kind=k) for m in MODES for k in ("ss", "sk")]

    def setup(self, c, cfg):
        apply_mode(c, cfg["mode"])
        return getattr(c.LinComb, self.name.rsplit(".", 1)[1]), (c.operand("x"), _other_operand(c, cfg["kind"])), {}

    def raises(self, c, x, y):
        d = c.v(x) - _ov(c, y)
        return [(ZeroDivisionError, And(d != 0, d % c.p == 0))]

    def _spec(self, c, x, y):
        e = c.v(x) == _ov(c, y)
        return If(Not(e) if self.neg else e, 1, 0)

    def result(self, c, x, y):
        return c.fresh_bool_lc(lift(self._spec(c, x, y)), "eq")

    def post(self, c, r, x, y):
        fe = (c.eva(x) - _oa(c, y)) % c.p == 0
        return {
            "V.type": isinstance(r, c.LinCombBool),
            "V.value": Eq(c.v(r), self._spec(c, x, y)),
            "V.inv": c.inv(r),
            "S.bool": is01(c.eva(r)),
            "S.field": c.eva(r) == If(Not(fe) if self.neg else fe, 1, 0),
            "S.unique": Implies(_tied(c, x, y), c.eva(r) == c.v(r)),
        }

    def counts(self, c, x, y):
        return (0, 2, 2)


@register
class EqOp(_EqNe):
    name = "pysnark.runtime:LinComb.__eq__"


@register
class NeOp(_EqNe):
    name = "pysnark.runtime:LinComb.__ne__"
    neg = True


@register
class CheckNonzero(Contract):
    name = "pysnark.runtime:LinComb.check_nonzero"

    def configs(self, tier):
        return [dict(mode=m) for m in MODES]

    def setup(self, c, cfg):
        apply_mode(c, cfg["mode"])
        return c.LinComb.check_nonzero, (c.operand("x"),), {}

    def raises(self, c, x):
        v = c.v(x)
        return [(ZeroDivisionError, And(v != 0, v % c.p == 0))]

    def result(self, c, x):
        return c.fresh_bool_lc(lift(If(c.v(x) == 0, 0, 1)), "isnz")

    def post(self, c, r, x):
        return {
            "V.type": isinstance(r, c.LinCombBool),
            "V.value": Eq(c.v(r), If(c.v(x) == 0, 0, 1)),
            "V.inv": c.inv(r),
            "S.bool": is01(c.eva(r)),
            "S.nonzero": c.eva(r) == If(c.eva(x) == 0, 0, 1),
        }

    def counts(self, c, x):
        return (0, 2, 2)


# ---------------------------------------------------------------------------
# assertions
# ---------------------------------------------------------------------------

def small(c, *ts):
    """|t| < p/4: differences of two such values are canonical representatives."""
    q = c.p // 4
    return And(*[And(t > -q, t < q) for t in ts])


class _AssertCmp(Contract):
    sprops = ("C03",)
    vprops = ("C03",)
    """x.assert_<rel>(y): run-time check and in-circuit relation must coincide."""

    def configs(self, tier):
        out = []
        for n in ((3,) if tier == "quick" else (2, 8, 16)):
            for m in MODES:
                for k in ("ss", "sk"):
                    out.append(dict(mode=m, kind=k, bits=n))
        return out

    def setup(self, c, cfg):
        apply_mode(c, cfg["mode"], bitlength=cfg["bits"])
        return getattr(c.LinComb, self.name.rsplit(".", 1)[1]), (c.operand("x"), _other_operand(c, cfg["kind"])), {}

    def pre(self, c, x, y, err=None):
        return [(1 << (c.bitlength + 1)) < c.p]

    def raises(self, c, x, y, err=None):
        xv, yv = c.v(x), _ov(c, y)
        d = self.diff(xv, yv)
        return [(AssertionError, And(Not(ie(c)), Or(Not(self.rel(xv, yv)), d >= (1 << c.bitlength))))]

    def post(self, c, r, x, y, err=None):
        xv, yv = c.v(x), _ov(c, y)
        xa, ya = c.eva(x), _oa(c, y)
        n = c.bitlength
        return {
            "S.range": Implies(on(c), self.diff(xa, ya) % c.p < (1 << n)),
            "E.enforced": Implies(And(on(c), _tied(c, x, y), small(c, xv, yv)), self.rel(xv, yv)),
            "E.same_width": Implies(And(on(c), _tied(c, x, y), small(c, xv, yv)), self.diff(xv, yv) < (1 << n)),
            "canary.E.enforced": Implies(And(on(c), _tied(c, x, y), small(c, xv, yv)), self.diff(xv, yv) > 0),
        }

    def key(self, c, x, y, err=None):
        return (c.bitlength,)

    def counts(self, c, x, y, err=None):
        return addc(n_pvb(c, c.bitlength), n_ac(c))


@register
class AssertLt(_AssertCmp):
    name = "pysnark.runtime:LinComb.assert_lt"
    rel = staticmethod(lambda x, y: x < y)
    diff = staticmethod(lambda x, y: y - x - 1)


@register
class AssertLe(_AssertCmp):
    name = "pysnark.runtime:LinComb.assert_le"
    rel = staticmethod(lambda x, y: x <= y)
    diff = staticmethod(lambda x, y: y - x)


@register
class AssertGt(_AssertCmp):
    name = "pysnark.runtime:LinComb.assert_gt"
    rel = staticmethod(lambda x, y: x > y)
    diff = staticmethod(lambda x, y: x - y - 1)


@register
class AssertGe(_AssertCmp):
    name = "pysnark.runtime:LinComb.assert_ge"
    rel = staticmethod(lambda x, y: x >= y)
    diff = staticmethod(lambda x, y: x - y)


class _AssertEqNe(Contract):
    sprops = ("C03",)
    vprops = ("C03",)
    neg = False

    def configs(self, tier):
        return [dict(mode=m, kind=k) for m in MODES for k in ("ss", "sk")]

    def setup(self, c, cfg):
        apply_mode(c, cfg["mode"])
        return getattr(c.LinComb, self.name.rsplit(".", 1)[1]), (c.operand("x"), _other_operand(c, cfg["kind"])), {}

    def rel(self, xv, yv):
        return xv != yv if self.neg else xv == yv

    def raises(self, c, x, y, err=None):
        xv, yv = c.v(x), _ov(c, y)
        out = [(AssertionError, And(Not(ie(c)), Not(self.rel(xv, yv))))]
        if self.neg:
            d = xv - yv
            out.append((ZeroDivisionError, And(isg(c), d != 0, d % c.p == 0)))
        return out

    def post(self, c, r, x, y, err=None):
        xv, yv = c.v(x), _ov(c, y)
        fe = (c.eva(x) - _oa(c, y)) % c.p == 0
        return {
            "S.field": Implies(on(c), Not(fe) if self.neg else fe),
            "E.enforced": Implies(And(on(c), _tied(c, x, y), small(c, xv, yv)), self.rel(xv, yv)),
        }

    def counts(self, c, x, y, err=None):
        return addc((0, 1, 0), n_ac(c)) if self.neg else n_ac(c)


@register
class AssertEq(_AssertEqNe):
    name = "pysnark.runtime:LinComb.assert_eq"


@register
class AssertNe(_AssertEqNe):
    name = "pysnark.runtime:LinComb.assert_ne"
    neg = True


@register
class AssertRange(Contract):
    sprops = ("C03",)
    vprops = ("C03",)
    """x.assert_range(lo, hi): lo <= x < hi, as the run-time check has it."""
    name = "pysnark.runtime:LinComb.assert_range"

    def configs(self, tier):
        out = []
        for n in ((3,) if tier == "quick" else (2, 8, 16)):
            for m in MODES:
                for k in ("kk", "ss"):
                    out.append(dict(mode=m, kind=k, bits=n))
        return out

    def setup(self, c, cfg):
        apply_mode(c, cfg["mode"], bitlength=cfg["bits"])
        if cfg["kind"] == "kk":
            lo, hi = c.public_int("lo"), c.public_int("hi")
        else:
            lo, hi = c.operand("lo"), c.operand("hi")
        return c.LinComb.assert_range, (c.operand("x"), lo, hi), {}

    def pre(self, c, x, lo, hi, err=None):
        return [(1 << (c.bitlength + 1)) < c.p]

    def raises(self, c, x, lo, hi, err=None):
        xv, l, h = c.v(x), _ov(c, lo), _ov(c, hi)
        n = c.bitlength
        return [(AssertionError, And(Not(ie(c)), Or(xv < l, xv >= h, xv - l >= (1 << n), h - xv - 1 >= (1 << n))))]

    def post(self, c, r, x, lo, hi, err=None):
        xv, l, h = c.v(x), _ov(c, lo), _ov(c, hi)
        hyp = And(on(c), _tied(c, x, lo, hi), small(c, xv, l, h))
        return {
            "E.lower": Implies(hyp, l <= xv),
            "E.upper": Implies(hyp, xv < h),
            "E.upper_weak": Implies(hyp, xv <= h),
        }

    def key(self, c, x, lo, hi, err=None):
        return (c.bitlength,)

    def counts(self, c, x, lo, hi, err=None):
        return addc(n_pvb(c, 2 * c.bitlength), n_ac(c, 2))


# ---------------------------------------------------------------------------
# linear operations (no events): verified for value, invariant and wire expression
# ---------------------------------------------------------------------------
from pyvc.sym import idivmod, fmul_cancel, fmul_assoc, band_bits


class _Linear(Contract):
    spec = None
    arity = 2

    def configs(self, tier):
        return [dict(mode=m, kind=k) for m in ("plain", "g1", "g0") for k in (("ss", "sk") if self.arity == 2 else ("s",))]

    def setup(self, c, cfg):
        apply_mode(c, cfg["mode"])
        fn = getattr(c.LinComb, self.name.rsplit(".", 1)[1])
        if self.arity == 1:
            return fn, (c.operand("x"),), {}
        return fn, (c.operand("x"), _other_operand(c, cfg["kind"])), {}

    def use_stub(self, c, *a):
        return False

    def post(self, c, r, x, y=None):
        xv = c.v(x)
        if y is None:
            sv, sa = self.spec(xv, None), self.spec(c.eva(x), None)
        else:
            sv = self.spec(xv, _ov(c, y))
            sa = self.spec(c.eva(x), _oa(c, y))      # a plain int enters through ConstVal: the constant-one wire
        return {"V.value": Eq(c.v(r), sv), "V.inv": c.inv(r), "S.linear": c.eva(r) == sa % c.p}

    def counts(self, c, *a):
        return (0, 0, 0)


@register
class Add(_Linear):
    name = "pysnark.runtime:LinComb.__add__"
    spec = staticmethod(lambda x, y: x + y)



@register
class Sub(_Linear):
    name = "pysnark.runtime:LinComb.__sub__"
    spec = staticmethod(lambda x, y: x - y)


@register
class RSub(_Linear):
    name = "pysnark.runtime:LinComb.__rsub__"
    spec = staticmethod(lambda x, y: y - x)

    def configs(self, tier):
        return [dict(mode=m, kind="sk") for m in ("plain", "g1", "g0")]


@register
class Neg(_Linear):
    name = "pysnark.runtime:LinComb.__neg__"
    arity = 1
    spec = staticmethod(lambda x, y: -x)


class _Alloc(Contract):
    """PubVal / PrivVal / ConstVal: the allocation primitives."""
    kind = None
    witness_args = (0,)

    def configs(self, tier):
        return [dict(mode=m) for m in ("plain", "g0")]

    def setup(self, c, cfg):
        apply_mode(c, cfg["mode"])
        return getattr(c.rt, self.kind), (SymInt(z3.Int("s_v")),), {}

    def use_stub(self, c, *a):
        return False

    def post(self, c, r, val):
        d = {"V.value": Eq(c.v(r), val), "V.inv": c.inv(r), "V.type": isinstance(r, c.LinComb)}
        return d

    def counts(self, c, val):
        return {"PubVal": (1, 0, 0), "PrivVal": (0, 1, 0), "ConstVal": (0, 0, 0)}[self.kind]


@register
class PubValC(_Alloc):
    name = "pysnark.runtime:PubVal"
    kind = "PubVal"


@register
class PrivValC(_Alloc):
    name = "pysnark.runtime:PrivVal"
    kind = "PrivVal"


@register
class ConstValC(_Alloc):
    name = "pysnark.runtime:ConstVal"
    kind = "ConstVal"
    witness_args = ()

    def post(self, c, r, val):
        d = super().post(c, r, val)
        d["S.const"] = c.eva(r) == term(val) % c.p
        return d


@register
class Val(Contract):
    """x.val(): one public output tied to x by an equality constraint; returns the value."""
    name = "pysnark.runtime:LinComb.val"

    # the mechanism C17 names: every call allocates ONE new public wire and ties it (also for a wire reported before)
    vprops = ("C05", "C17")
    sprops = ("C02", "C17")
    tprops = ("C06", "C17")

    def configs(self, tier):
        return [dict(mode=m) for m in MODES]

    def setup(self, c, cfg):
        apply_mode(c, cfg["mode"])
        return c.LinComb.val, (c.operand("x"),), {}

    def use_stub(self, c, x):
        return False          # two lines; executed in place so that the output wire is an explicit event of the caller

    def post(self, c, r, x):
        d = {"V.value": Eq(r, c.v(x))}
        pubs = [e.var for e in c.g.trace[getattr(c, "call_start", 0):] if isinstance(e, __import__("pyvc.ghost", fromlist=["Alloc"]).Alloc) and e.var.kind == "pub"]
        if pubs:       # body verification: the output wire is visible
            o = pubs[-1]
            d["V.output_value"] = modeq(o.h, c.v(x), c.p)
            d["S.tied"] = Implies(on(c), o.a == c.eva(x))
        return d

    def counts(self, c, x):
        return addc((1, 0, 0), n_ac(c))


# ---------------------------------------------------------------------------
# division
# ---------------------------------------------------------------------------

@register
class TrueDiv(Contract):
    """x / y: exact division; raises unless y != 0 and y divides x."""
    name = "pysnark.runtime:LinComb.__truediv__"

    def configs(self, tier):
        return [dict(mode=m, kind=k) for m in MODES for k in ("ss", "sk")]

    def setup(self, c, cfg):
        apply_mode(c, cfg["mode"])
        return c.LinComb.__truediv__, (c.operand("x"), _other_operand(c, cfg["kind"])), {}

    def use_stub(self, c, x, y):
        return not isinstance(y, int)

    def _exact(self, c, x, y):
        xv, yv = c.v(x), _ov(c, y)
        q, m = idivmod(xv, yv)
        return And(isg(c), m == 0), q

    def raises(self, c, x, y):
        xv, yv = c.v(x), _ov(c, y)
        out = [(ValueError, yv == 0)]
        exact, q = self._exact(c, x, y)
        out.append((ValueError, And(yv != 0, Not(exact), Not(ie(c)))))
        if isinstance(y, int):
            out.append((ZeroDivisionError, And(yv != 0, yv % c.p == 0)))
        return out

    def result(self, c, x, y):
        exact, q = self._exact(c, x, y)
        return c.fresh_lincomb(lift(If(exact, q, 0)), "quot")

    def post(self, c, r, x, y):
        exact, q = self._exact(c, x, y)
        xa, ya, ra = c.eva(x), _oa(c, y), c.eva(r)
        fmul_cancel(ya, ra, c.v(r) % c.p)
        if isinstance(y, int):
            # lemmas: inv*(k*q) = (inv*k)*q  and  k*(inv*x) = (k*inv)*x   (associativity in F_p)
            inv = term(c.g.fieldinverse(y))
            fmul_assoc(inv, ya, q % c.p)
            fmul_assoc(ya, inv, xa)
        d = {
            "V.value": Implies(exact, Eq(c.v(r), q)),
            "V.inv": c.inv(r),
        }
        if isinstance(y, int):
            d["S.quot"] = fmul(ya, ra) == xa
        else:
            d["S.quot"] = Implies(on(c), fmul(ya, ra) == xa)
            # a quotient is only ever handed out for a non-zero divisor (0 * q = 0 would determine nothing): whatever
            # the error mode, a call with a zero divisor does not return
            d["S.divisor_nonzero_on_return"] = Implies(And(c.tied(y), canon(c, c.v(y))), ya != 0)
            d["S.unique"] = Implies(And(on(c), _tied(c, x, y), exact, ya != 0), ra == c.v(r) % c.p)
            d["canary.S.unique"] = Implies(And(on(c), _tied(c, x, y), exact, ya != 0), ra == (c.v(r) + 1) % c.p)
        return d

    def counts(self, c, x, y):
        return (0, 0, 0) if isinstance(y, int) else addc((0, 1, 0), n_ac(c))


def _divmod_spec(c, x, d):
    xv, dv = c.v(x), _ov(c, d)
    return idivmod(xv, dv)


@register
class DivMod(Contract):
    """divmod(x, d): floor quotient and remainder, 0 <= r < d."""
    name = "pysnark.runtime:LinComb.__divmod__"

    def configs(self, tier):
        out = []
        for n in ((3,) if tier == "quick" else (2, 8, 16)):
            for m in MODES:
                for k in ("ss", "sk"):
                    out.append(dict(mode=m, kind=k, bits=n))
        return out

    def setup(self, c, cfg):
        apply_mode(c, cfg["mode"], bitlength=cfg["bits"])
        return c.LinComb.__divmod__, (c.operand("x"), _other_operand(c, cfg["kind"], "d")), {}

    def pre(self, c, x, d):
        return [(1 << (c.bitlength + 1)) < c.p]

    def raises(self, c, x, d):
        xv, dv = c.v(x), _ov(c, d)
        q, m = idivmod(xv, dv)
        n = c.bitlength
        bad = Or(m >= dv, dv - m - 1 >= (1 << n), m < 0, m >= (1 << n))
        return [(ValueError, dv == 0), (AssertionError, And(dv != 0, Not(ie(c)), bad))]

    def result(self, c, x, d):
        q, m = _divmod_spec(c, x, d)
        return (c.fresh_lincomb(lift(q), "quo"), c.fresh_lincomb(lift(m), "rem"))

    def post(self, c, r, x, d):
        if not (isinstance(r, tuple) and len(r) == 2):
            return {"V.shape": False}
        q, m = _divmod_spec(c, x, d)
        quo, rem = r
        n = c.bitlength
        xa, da, qa, ma = c.eva(x), _oa(c, d), c.eva(quo), c.eva(rem)
        if isinstance(d, int) and guarded(c):
            da = imul(term(d), c.eva(c.rt.LinComb.ONE)) % c.p
        valid = And(_tied(c, x, d), _ov(c, d) > 0, _ov(c, d) < (1 << n), c.v(x) >= 0, c.v(x) < (1 << n))
        return {
            "V.shape": True,
            "V.quotient": Eq(c.v(quo), q),
            "V.remainder": Eq(c.v(rem), m),
            "V.inv": And(c.inv(quo), c.inv(rem)),
            "S.identity": Implies(on(c), fmul(qa, da) == (xa - ma) % c.p),
            "S.rem_range": Implies(on(c), And(ma < (1 << n), (da - ma - 1) % c.p < (1 << n))),
            "S.unique_quotient": Implies(And(on(c), valid), qa == c.v(quo) % c.p),
            "S.unique_remainder": Implies(And(on(c), valid), ma == c.v(rem) % c.p),
        }

    def key(self, c, x, d):
        return (c.bitlength,)

    def counts(self, c, x, d):
        n = c.bitlength
        # quo, product, rem ; identity constraint ; rem < d ; rem >= 0
        return addc((0, 3, 1), n_ac(c), n_pvb(c, 2 * n), n_ac(c, 2))


class _DivWrap(Contract):
    idx = 0

    def configs(self, tier):
        return [dict(mode=m, kind=k, bits=3) for m in ("plain", "g0") for k in ("ss", "sk")]

    def setup(self, c, cfg):
        apply_mode(c, cfg["mode"], bitlength=cfg["bits"])
        return getattr(c.LinComb, self.name.rsplit(".", 1)[1]), (c.operand("x"), _other_operand(c, cfg["kind"], "d")), {}

    def use_stub(self, c, *a):
        return False

    def raises(self, c, x, d):
        return REG["pysnark.runtime:LinComb.__divmod__"].raises(c, x, d)

    def post(self, c, r, x, d):
        q, m = _divmod_spec(c, x, d)
        return {"V.value": Eq(c.v(r), (q, m)[self.idx]), "V.inv": c.inv(r)}

    def counts(self, c, x, d):
        return REG["pysnark.runtime:LinComb.__divmod__"].counts(c, x, d)


from pyvc.contract import REGISTRY as REG


@register
class FloorDiv(_DivWrap):
    name = "pysnark.runtime:LinComb.__floordiv__"
    idx = 0


@register
class Mod(_DivWrap):
    name = "pysnark.runtime:LinComb.__mod__"
    idx = 1


# ---------------------------------------------------------------------------
# powers, shifts, bitwise, abs
# ---------------------------------------------------------------------------

def _ipow(x, k):
    """x**k with the nesting the spec fixes: x * x**(k-1)"""
    r = None
    for _ in range(k):
        r = x if r is None else imul(x, r)
    return Z(1) if r is None else r


@register
class PowInt(Contract):
    """x ** k for a plain int k >= 0 (k-1 constraints); negative k raises."""
    name = "pysnark.runtime:LinComb.__pow__"

    def configs(self, tier):
        ks = (0, 1, 2, 3, 5, -1) if tier == "quick" else (0, 1, 2, 3, 4, 5, 8, -1, -2)
        out = [dict(mode=m, k=k, **({"raises_only": True} if k < 0 else {})) for m in MODES for k in ks]
        # three-argument pow(x, k, m) is refused (a reduced power is not the value of any wire expression)
        out += [dict(mode=m, k=k, mod=5, raises_only=True) for m in ("plain", "ie") for k in (0, 2)]
        return out

    def setup(self, c, cfg):
        apply_mode(c, cfg["mode"])
        if "mod" in cfg:
            return c.LinComb.__pow__, (c.operand("x"), cfg["k"], cfg["mod"]), {}
        return c.LinComb.__pow__, (c.operand("x"), cfg["k"]), {}

    def use_stub(self, c, x, k, mod=None):
        return isinstance(k, int)      # secret exponents: see PowSecret

    def measure(self, c, x, k, mod=None):
        """x ** k recurses on k - 1: the exponent is the termination measure"""
        return k if isinstance(k, int) else 0

    def raises(self, c, x, k, mod=None):
        if mod is not None:
            return [(ValueError, True)]
        return [(ValueError, k < 0)]

    def _one(self, c):
        return c.v(c.rt.LinComb.ONE)

    def result(self, c, x, k, mod=None):
        if k == 0:
            return c.rt.LinComb.ONE
        if k == 1:
            return x
        return c.fresh_lincomb(lift(_ipow(c.v(x), k)), "pow")

    def post(self, c, r, x, k, mod=None):
        d = {
            "V.value": Implies(isg(c), Eq(c.v(r), _ipow(c.v(x), k))),
            "V.inv": c.inv(r),
        }
        xa = c.eva(x)
        fa = None
        for _ in range(k):
            fa = xa if fa is None else fmul(xa, fa)
        if k >= 1:
            d["S.power"] = c.eva(r) == fa
        else:
            d["S.power"] = Implies(on(c), c.eva(r) == 1)
        return d

    def key(self, c, x, k, mod=None):
        return (k,)

    def counts(self, c, x, k, mod=None):
        return (0, max(k - 1, 0), max(k - 1, 0))


@register
class LShift(Contract):
    name = "pysnark.runtime:LinComb.__lshift__"

    def configs(self, tier):
        return [dict(mode=m, k=k, **({"raises_only": True} if k < 0 else {})) for m in ("plain", "g0") for k in (0, 1, 5, 254, 300, -1)]      # 2^254 and 2^300 exceed every supported prime

    def setup(self, c, cfg):
        apply_mode(c, cfg["mode"])
        return c.LinComb.__lshift__, (c.operand("x"), cfg["k"]), {}

    def use_stub(self, c, x, k):
        return False

    def raises(self, c, x, k):
        return [(ValueError, k < 0)]

    def post(self, c, r, x, k):
        return {"V.value": Eq(c.v(r), c.v(x) * (1 << k)), "V.inv": c.inv(r),
                "S.linear": c.eva(r) == ((1 << k) * c.eva(x)) % c.p}

    def counts(self, c, x, k):
        return (0, 0, 0)


@register
class RShift(Contract):
    """x >> k for a plain int k: floor(x / 2^k) for 0 <= x < 2^bitlength; negative k raises."""
    name = "pysnark.runtime:LinComb.__rshift__"

    def configs(self, tier):
        n = 4
        return [dict(mode=m, k=k, bits=n, **({"raises_only": True} if k < 0 else {})) for m in MODES for k in (0, 1, 3, 4, 6, -1)]

    def setup(self, c, cfg):
        apply_mode(c, cfg["mode"], bitlength=cfg["bits"])
        return c.LinComb.__rshift__, (c.operand("x"), cfg["k"]), {}

    def pre(self, c, x, k):
        return [(1 << c.bitlength) < c.p]

    def use_stub(self, c, x, k):
        return isinstance(k, int)

    def raises(self, c, x, k):
        v = c.v(x)
        return [(ValueError, k < 0),
                (AssertionError, And(Not(ie(c)), Or(v < 0, v >= (1 << c.bitlength))))]

    def result(self, c, x, k):
        from pyvc.sym import shr
        if k >= c.bitlength or k < 0:
            return 0
        return c.fresh_lincomb(lift(shr(c.v(x), k) - (1 << (c.bitlength - k)) * shr(c.v(x), c.bitlength)), "shr")

    def post(self, c, r, x, k):
        from pyvc.sym import shr
        v = c.v(x)
        n = c.bitlength
        valid = And(v >= 0, v < (1 << n))
        if k < 0:
            return {}          # Python raises ValueError here: the R facet carries that clause
        if isinstance(r, int) and not isinstance(r, SymInt):
            return {"V.value": Implies(valid, Eq(r, shr(v, k))), "V.kind": k >= n}
        return {
            "V.value": Implies(valid, Eq(c.v(r), shr(v, k))),
            "V.inv": c.inv(r),
            "S.unique": Implies(And(on(c), c.tied(x), valid), c.eva(r) == shr(v, k)),
        }

    def key(self, c, x, k):
        return (c.bitlength, k)

    def counts(self, c, x, k):
        return addc(n_pvb(c, c.bitlength), n_ac(c))


class _Bitwise(Contract):
    """x <op> y on 0 <= x,y < 2^bitlength."""
    bitop = None

    def configs(self, tier):
        out = []
        for n in ((3,) if tier == "quick" else (2, 6, 8)):
            for m in MODES:
                for k in ("ss", "sk"):
                    if n == 8 and k == "ss":
                        continue          # two symbolic 8-bit operands sit at the solvers' limit (verdicts flip under load)
                    if n == 6 and k == "sk":
                        continue
                    out.append(dict(mode=m, kind=k, bits=n))
        # a PLAIN operand at or beyond 2^bitlength: the plain-int path has no width, Python's result is the answer
        n = 3 if tier == "quick" else 6
        out += [dict(mode="plain", kind="sk", bits=n, plain=v) for v in ((1 << n), (1 << n) + 5, (3 << n) + 1)]
        # the SAME object on both sides (x ^ x, acc &= acc): same clauses, same trace shape (counts as for two operands)
        out += [dict(mode=m, kind="same", bits=3) for m in ("plain", "g0")]
        return out

    def setup(self, c, cfg):
        apply_mode(c, cfg["mode"], bitlength=cfg["bits"])
        x = c.operand("x")
        if cfg["kind"] == "same":
            return getattr(c.LinComb, self.name.rsplit(".", 1)[1]), (x, x), {}
        y = c.operand("y") if cfg["kind"] == "ss" else cfg.get("plain", 5)          # int operand: concrete (a width-free symbolic & is not encodable)
        return getattr(c.LinComb, self.name.rsplit(".", 1)[1]), (x, y), {}

    def pre(self, c, x, y):
        return [(1 << c.bitlength) < c.p]

    def raises(self, c, x, y):
        if isinstance(y, int):
            return []
        n = c.bitlength
        xv, yv = c.v(x), c.v(y)
        return [(AssertionError, And(Not(ie(c)), Or(xv < 0, xv >= (1 << n), yv < 0, yv >= (1 << n))))]

    def spec(self, c, xv, yv):
        from pyvc.sym import bit
        n = c.bitlength
        return z3.Sum([Z(0)] + [(1 << i) * self.bitop(bit(xv, i), bit(yv, i)) for i in range(n)])

    def result(self, c, x, y):
        return c.fresh_lincomb(lift(self.spec(c, c.v(x), _ov(c, y))), "bw")

    def post(self, c, r, x, y):
        n = c.bitlength
        xv, yv = c.v(x), _ov(c, y)
        valid = And(xv >= 0, xv < (1 << n), yv >= 0, yv < (1 << n))
        d = {
            "V.value": Implies(valid, Eq(c.v(r), self.spec(c, xv, yv))),
            "V.inv": c.inv(r),
            "S.unique": Implies(And(on(c), _tied(c, x, y), valid), c.eva(r) == c.v(r) % c.p),
        }
        if isinstance(y, int) and not isinstance(y, bool):
            import operator
            op = {"__and__": operator.and_, "__or__": operator.or_, "__xor__": operator.xor}[self.name.rsplit(".", 1)[1]]
            # the plain-operand path: Python's own result on the value, for every non-negative value and ANY plain int
            d["V.python_plain_operand"] = Implies(And(isg(c), xv >= 0), Eq(c.v(r), term(op(lift(xv), y))))
        return d

    def key(self, c, x, y):
        return (c.bitlength,)

    def counts(self, c, x, y):
        n = c.bitlength
        if isinstance(y, int):
            return (0, 1, 0)
        return addc(n_pvb(c, 2 * n), n_ac(c, 2), (0, n, n))


def _b_and(a, b):
    return z3.If(z3.And(a == 1, b == 1), Z(1), Z(0))


def _b_or(a, b):
    return z3.If(z3.Or(a == 1, b == 1), Z(1), Z(0))


def _b_xor(a, b):
    return z3.If(a != b, Z(1), Z(0))


@register
class AndOp(_Bitwise):
    name = "pysnark.runtime:LinComb.__and__"
    bitop = staticmethod(_b_and)


@register
class OrOp(_Bitwise):
    name = "pysnark.runtime:LinComb.__or__"
    bitop = staticmethod(_b_or)


@register
class XorOp(_Bitwise):
    name = "pysnark.runtime:LinComb.__xor__"
    bitop = staticmethod(_b_xor)


@register
class Invert(Contract):
    """~x : Python's -x-1."""
    name = "pysnark.runtime:LinComb.__invert__"

    def configs(self, tier):
        return [dict(mode=m, bits=3) for m in MODES]

    def setup(self, c, cfg):
        apply_mode(c, cfg["mode"], bitlength=cfg["bits"])
        return c.LinComb.__invert__, (c.operand("x"),), {}

    def pre(self, c, x):
        return [(1 << c.bitlength) < c.p]

    def raises(self, c, x):
        v = c.v(x)
        return [(AssertionError, And(Not(ie(c)), Or(v < 0, v >= (1 << c.bitlength))))]

    def result(self, c, x):
        return c.fresh_lincomb(lift((1 << c.bitlength) - 1 - c.v(x)), "inv")

    def post(self, c, r, x):
        v = c.v(x)
        valid = And(v >= 0, v < (1 << c.bitlength))
        return {
            "V.python": Implies(valid, Eq(c.v(r), -v - 1)),
            "V.masked": Implies(valid, Eq(c.v(r), (1 << c.bitlength) - 1 - v)),
            "V.inv": c.inv(r),
            "S.unique": Implies(And(on(c), c.tied(x), valid), c.eva(r) == c.v(r) % c.p),
        }

    def key(self, c, x):
        return (c.bitlength,)

    def counts(self, c, x):
        return addc(n_pvb(c, c.bitlength), n_ac(c))


@register
class Abs(Contract):
    name = "pysnark.runtime:LinComb.__abs__"
    modules = ("pysnark.runtime", "pysnark.boolean", "pysnark.fixedpoint", "pysnark.branching")

    def configs(self, tier):
        return [dict(mode=m, bits=3) for m in MODES]

    def setup(self, c, cfg):
        apply_mode(c, cfg["mode"], bitlength=cfg["bits"])
        return c.LinComb.__abs__, (c.operand("x"),), {}

    def pre(self, c, x):
        return [(1 << (c.bitlength + 1)) < c.p]

    def raises(self, c, x):
        return [(ValueError, And(Not(And(isg(c), in_range(c.v(x), c.bitlength))), Not(ie(c))))]

    def result(self, c, x):
        v = c.v(x)
        ok = And(isg(c), in_range(v, c.bitlength))
        return c.fresh_lincomb(lift(If(And(ok, v >= 0), v, -v)), "abs")

    def post(self, c, r, x):
        v = c.v(x)
        ok = And(isg(c), in_range(v, c.bitlength))
        return {
            "V.value": Implies(ok, Eq(c.v(r), If(v >= 0, v, -v))),
            "V.inv": c.inv(r),
            "S.unique": Implies(And(on(c), c.tied(x), ok), c.eva(r) == c.v(r) % c.p),
        }

    def key(self, c, x):
        return (c.bitlength,)

    def counts(self, c, x):
        return addc(n_pvb(c, c.bitlength + 1), n_ac(c), (0, 1, 1))


@register
class IfElse(Contract):
    """cond.if_else(a, b) on a LinComb condition (not range-checked): b + cond*(a-b)."""
    name = "pysnark.runtime:LinComb.if_else"

    def configs(self, tier):
        return [dict(mode=m) for m in ("plain", "g0")]

    def setup(self, c, cfg):
        apply_mode(c, cfg["mode"])
        cnd = c.operand("c")
        cur().assume(is01(term(cnd.value)))
        return c.LinComb.if_else, (cnd, c.operand("t"), c.operand("f")), {}

    def use_stub(self, c, *a):
        return False

    def post(self, c, r, cnd, t, f):
        return {
            "V.value": Eq(c.v(r), If(c.v(cnd) == 1, c.v(t), c.v(f))),
            "V.inv": c.inv(r),
            "S.select": Implies(is01(c.eva(cnd)), c.eva(r) == If(c.eva(cnd) == 1, c.eva(t), c.eva(f))),
        }

    def counts(self, c, cnd, t, f):
        return (0, 1, 1)


# ---------------------------------------------------------------------------
# reflected operators with a plain int on the left:  k <op> x
# ---------------------------------------------------------------------------

class _Reflected(Contract):
    guard_relevant = False     # guard behaviour is that of the forward operation they delegate to
    spec = None
    fwd = None          # name of the contract of the forward operation (raises / counts are its own)

    def configs(self, tier):
        return [dict(mode=m, bits=3) for m in ("plain", "g0")]

    def setup(self, c, cfg):
        apply_mode(c, cfg["mode"], bitlength=cfg["bits"])
        return getattr(c.LinComb, self.name.rsplit(".", 1)[1]), (c.operand("x"), c.public_int("k")), {}

    def use_stub(self, c, *a):
        return False

    raises_unspecified = True      # the forward operation's contract carries the raise conditions

    def post(self, c, r, x, k):
        want = self.spec(c, term(k), c.v(x))
        if isinstance(r, tuple):
            return {"V.value": And(*[Eq(c.v(a), b) for a, b in zip(r, want)]), "V.inv": And(*[c.inv(a) for a in r])}
        return {"V.value": Implies(isg(c), Eq(c.v(r), want)), "V.inv": c.inv(r)}


def _exactdiv(c, a, b):
    return idivmod(a, b)[0]


@register
class RTrueDiv(_Reflected):
    """k / x: exact quotient k // x when x divides k"""
    name = "pysnark.runtime:LinComb.__rtruediv__"
    spec = staticmethod(lambda c, k, x: idivmod(k, x)[0])

    def post(self, c, r, x, k):
        q, m = idivmod(term(k), c.v(x))
        return {"V.value": Implies(And(isg(c), m == 0), Eq(c.v(r), q)), "V.inv": c.inv(r)}


@register
class RFloorDiv(_Reflected):
    name = "pysnark.runtime:LinComb.__rfloordiv__"
    spec = staticmethod(lambda c, k, x: idivmod(k, x)[0])


@register
class RMod(_Reflected):
    name = "pysnark.runtime:LinComb.__rmod__"
    spec = staticmethod(lambda c, k, x: idivmod(k, x)[1])


@register
class RDivMod(_Reflected):
    name = "pysnark.runtime:LinComb.__rdivmod__"
    spec = staticmethod(lambda c, k, x: idivmod(k, x))


@register
class EnsureLc(Contract):
    """LinComb._ensurelc(v): a LinComb is passed through; an int becomes the constant v (times the guard inside a guarded region)"""
    name = "pysnark.runtime:LinComb._ensurelc"
    # C08: "the meaning of constants ... exactly what it was before the region": this is where a plain constant gets
    # its meaning (ONE * v with the CURRENT LinComb.ONE), so it must not remember anything from an earlier region
    vprops = ("C05", "C08")
    fprops = ("C08",)

    def configs(self, tier):
        return [dict(mode=m, kind=k) for m in ("plain", "g1", "g0") for k in ("s", "k", "five")]

    def setup(self, c, cfg):
        apply_mode(c, cfg["mode"])
        v = c.operand("x") if cfg["kind"] == "s" else (c.public_int("k") if cfg["kind"] == "k" else 5)
        return c.LinComb._ensurelc, (v,), {}

    def use_stub(self, c, *a):
        return False

    def post(self, c, r, *a):
        v = a[-1]
        if isinstance(v, c.LinComb):
            return {"V.same_object": r is v}
        one = c.rt.LinComb.ONE
        return {"V.value": Eq(c.v(r), imul(term(v), c.v(one))), "V.inv": c.inv(r),
                "V.value_unguarded_or_true_guard": Implies(isg(c), Eq(c.v(r), term(v)))}


# ---------------------------------------------------------------------------
# power / shifts by a SECRET amount (oblivious square-and-multiply)
# ---------------------------------------------------------------------------

def _pow_secret_spec(c, xv, ev, n):
    """x ** e mod p for 0 <= e < 2^n, written from the definition: prod_i (x^(2^i))^{e_i}, reduced mod p"""
    from pyvc.sym import bit
    p = c.p
    acc = None
    sq = xv
    for i in range(n):
        term_i = z3.If(bit(ev, i) == 1, sq % p if i else sq, Z(1))
        acc = term_i if acc is None else imul(acc, term_i) % p
        sq = imul(sq % p if i else sq, sq % p if i else sq)
    return acc if acc is not None else Z(1)


@register
class PowSecret(Contract):
    """x ** e for a secret exponent 0 <= e < 2^bitlength: equals x**e modulo the field prime."""
    name = "pysnark.runtime:LinComb.__pow__#secret"
    history_ok = False        # its value clause is at the solvers' limit already (nonlinear, modular): no second copy in one query
    modules = ("pysnark.runtime", "pysnark.boolean", "pysnark.fixedpoint", "pysnark.branching")
    vprops = ("C05",)
    sprops = ()
    tprops = ("C06",)

    def configs(self, tier):
        return [dict(mode=m, bits=n) for n in ((2,) if tier == "quick" else (1, 2)) for m in ("plain", "g1")]

    def setup(self, c, cfg):
        apply_mode(c, cfg["mode"], bitlength=cfg["bits"])
        return c.LinComb.__pow__, (c.operand("x"), c.operand("e")), {}

    def pre(self, c, x, e, mod=None):
        return [(1 << (c.bitlength + 1)) < c.p]

    def use_stub(self, c, *a, **k):
        return False

    def raises(self, c, x, e, mod=None):
        n = c.bitlength
        ev = c.v(e)
        return [(AssertionError, And(Not(ie(c)), Or(ev < 0, ev >= (1 << n))))]

    def post(self, c, r, x, e, mod=None):
        n = c.bitlength
        xv, ev = c.v(x), c.v(e)
        # plain-Python reference for the cases enumerable at this width
        cases = And(*[Implies(ev == k, modeq(c.v(r), _ipow(xv, k), c.p)) for k in range(1 << n)])
        exact = And(*[Implies(ev == k, Eq(c.v(r), _ipow(xv, k))) for k in range(1, 1 << n)])
        return {"V.value_mod_p": cases, "V.inv": c.inv(r),
                "V.python": Implies(isg(c), exact),
                "V.python_nonnegative_base": Implies(And(isg(c), xv >= 0, _ipow(xv, (1 << n) - 1) < c.p), exact)}


@register
class RPowSecret(Contract):
    """k ** e for a PLAIN base k and a secret exponent 0 <= e < 2^bitlength (the reflected operator): k**e as Python
    computes it, for every base -- 0 ** 0 is 1, 1 ** e is 1 -- modulo the field prime, and exactly where it fits."""
    name = "pysnark.runtime:LinComb.__rpow__"
    modules = ("pysnark.runtime", "pysnark.boolean", "pysnark.fixedpoint", "pysnark.branching")
    vprops = ("C05",)
    sprops = ()
    tprops = ("C06",)

    def configs(self, tier):
        return [dict(mode=m, bits=2, base=k) for k in (0, 1, 2, 3) for m in ("plain", "g1")]

    def setup(self, c, cfg):
        apply_mode(c, cfg["mode"], bitlength=cfg["bits"])
        return c.LinComb.__rpow__, (c.operand("e"), cfg["base"]), {}

    def pre(self, c, e, k):
        return [(1 << (c.bitlength + 1)) < c.p]

    def use_stub(self, c, *a, **k):
        return False

    def raises(self, c, e, k):
        n = c.bitlength
        ev = c.v(e)
        return [(AssertionError, And(Not(ie(c)), Or(ev < 0, ev >= (1 << n))))]

    def post(self, c, r, e, k):
        n = c.bitlength
        ev = c.v(e)
        return {"V.python": Implies(isg(c), And(*[Implies(ev == j, Eq(c.v(r), term(k ** j))) for j in range(1 << n)])),
                "V.inv": c.inv(r)}


class _ShiftSecret(Contract):
    modules = ("pysnark.runtime", "pysnark.boolean", "pysnark.fixedpoint", "pysnark.branching")
    vprops = ("C05",)
    sprops = ()
    raises_unspecified = True
    guard_relevant = False

    def configs(self, tier):
        return [dict(mode="plain", bits=2)]

    def setup(self, c, cfg):
        apply_mode(c, cfg["mode"], bitlength=cfg["bits"])
        x, e = c.operand("x"), c.operand("e")
        cur().assume(And(term(e.value) >= 0, term(e.value) < (1 << cfg["bits"])))
        return getattr(c.LinComb, self.name.split("#")[0].rsplit(".", 1)[1]), (x, e), {}

    def pre(self, c, x, e):
        return [(1 << (c.bitlength + 1)) < c.p]

    def use_stub(self, c, *a, **k):
        return False


@register
class LShiftSecret(_ShiftSecret):
    """x << e for a secret e: x * 2^e"""
    name = "pysnark.runtime:LinComb.__lshift__#secret"

    def post(self, c, r, x, e):
        n = c.bitlength
        return {"V.value": And(*[Implies(c.v(e) == k, Eq(c.v(r), c.v(x) * (1 << k))) for k in range(1 << n)]), "V.inv": c.inv(r)}


@register
class RShiftSecret(_ShiftSecret):
    """x >> e for a secret e: floor(x / 2^e)"""
    name = "pysnark.runtime:LinComb.__rshift__#secret"

    def post(self, c, r, x, e):
        from pyvc.sym import shr
        n = c.bitlength
        return {"V.value": And(*[Implies(c.v(e) == k, Eq(c.v(r), shr(c.v(x), k))) for k in range(1 << n)]), "V.inv": c.inv(r)}


# ---------------------------------------------------------------------------
# add_constraint: the one place where the guard enters the constraint system
# ---------------------------------------------------------------------------

@register
class AddConstraint(Contract):
    """add_constraint(v, w, y[, check]):
       no guard:  emits exactly v*w = y; raises AssertionError iff the triple is false over the integers, errors are on
                  and check is set;
       guard g:   emits v*w = y + d and g*d = 0 for a fresh witness d = v*w - y: never raises, both triples hold
                  honestly iff g = 0 or the triple holds; adversarially g = 1 forces v*w = y."""
    name = "pysnark.runtime:add_constraint"
    cprops = ()                   # whether the emitted triple holds is the CALLER's obligation (see V.honest_*)
    skip_facets = "C"
    facets = "VRSTNK"
    sprops = ("C02", "C03")
    vprops = ("C01", "C07", "C05")
    tprops = ("C06",)
    eprops = ()

    def configs(self, tier):
        return [dict(mode=m, check=k) for m in MODES for k in (True, False, "default")]

    def setup(self, c, cfg):
        apply_mode(c, cfg["mode"])
        if cfg["check"] == "default":        # the check is ON unless a caller switches it off
            return c.rt.add_constraint, (c.operand("v"), c.operand("w"), c.operand("y")), {}
        return c.rt.add_constraint, (c.operand("v"), c.operand("w"), c.operand("y"), cfg["check"]), {}

    def use_stub(self, c, *a, **k):
        return False

    def raises(self, c, v, w, y, check=True):
        if guarded(c):
            return []
        return [(AssertionError, And(imul(c.v(v), c.v(w)) != c.v(y), bool(check), Not(ie(c))))]

    def post(self, c, r, v, w, y, check=True):
        from pyvc import ghost as gh
        prod = fmul(c.eva(v), c.eva(w))
        cons = [e for e in c.g.trace[getattr(c, "call_start", 0):] if isinstance(e, gh.Con)]
        holds = And(*[c.g.holds_h(e) for e in cons])
        triple = (imul(c.v(v), c.v(w)) - c.v(y)) % c.p == 0
        d = {"V.none": r is None,
             # honest satisfaction: everything emitted holds iff the caller's triple holds or the guard is dead
             "V.honest_sat_iff_triple_or_dead_guard": holds == Or(triple, And(guarded(c), c.v(c.rt.guard) % c.p == 0)) if guarded(c)
             else holds == triple,
             "S.product": Implies(on(c), prod == c.eva(y)),
             "canary.S.product": Implies(on(c), prod == (c.eva(y) + 1) % c.p)}
        if not guarded(c) and check:
            d["V.checked_triple_holds_when_errors_on"] = Implies(Not(ie(c)), imul(c.v(v), c.v(w)) == c.v(y))
        return d

    def counts(self, c, v, w, y, check=True):
        return (0, 1, 2) if guarded(c) else (0, 0, 1)


# ---------------------------------------------------------------------------
# a secret never turns into a plain Python value behind the caller's back: bool()/int() are refused, the other
# numeric conversions decline (C05: "or raises"; C06: no plain control flow can depend on a secret)
# ---------------------------------------------------------------------------

class _NoPlain(Contract):
    facets = "VRTNK"
    vprops = ("C05", "C06")
    sprops = eprops = cprops = ()
    tprops = ("C06",)
    guard_relevant = False
    owner = "LinComb"
    method = None
    must_raise = None
    modules = ("pysnark.runtime", "pysnark.boolean", "pysnark.fixedpoint", "pysnark.branching")

    def configs(self, tier):
        return [dict(mode=m, **({"raises_only": True} if self.must_raise else {})) for m in ("plain", "ie")]

    def setup(self, c, cfg):
        apply_mode(c, cfg["mode"])
        x = c.operand("x")
        if self.owner == "LinCombBool":
            x = c.operand_bool("x")
        elif self.owner == "LinCombFxp":
            x = c.mk_fxp(x)
        extra = {"__round__": (None,), "__deepcopy__": ({},), "__matmul__": (3,), "__rmatmul__": (3,), "__rpow__": (2,),
                 "__rlshift__": (2,), "__rrshift__": (2,)}.get(self.method, ())
        return getattr(getattr(c, self.owner), self.method), (x,) + extra, {}

    def use_stub(self, c, *a, **k):
        return False

    covers_normal = False

    def raises(self, c, x, *a):
        return [(self.must_raise, True)] if self.must_raise else []

    def post(self, c, r, x, *a):
        if self.must_raise:
            return {"V.refused": False}
        if self.method in ("__pos__", "__deepcopy__"):
            return {"V.same_object": r is x}
        # anything that is not "declined" must still be a secret object (never a plain number derived from the value)
        return {"V.declined_or_secret": r is NotImplemented or hasattr(r, "lc")}

    def counts(self, c, x, *a):
        return (0, 0, 0)


for _owner, _m, _exc in (("LinComb", "__bool__", NotImplementedError), ("LinComb", "__int__", NotImplementedError),
                         ("LinComb", "__float__", None), ("LinComb", "__complex__", None), ("LinComb", "__round__", None),
                         ("LinComb", "__trunc__", None), ("LinComb", "__floor__", None), ("LinComb", "__ceil__", None),
                         ("LinComb", "__matmul__", None), ("LinComb", "__rmatmul__", None), ("LinComb", "__pos__", None),
                         ("LinComb", "__deepcopy__", None),
                         ("LinCombFxp", "__int__", NotImplementedError), ("LinCombFxp", "__bool__", NotImplementedError),
                         ("LinCombBool", "__bool__", NotImplementedError)):
    _mod = {"LinComb": "pysnark.runtime", "LinCombFxp": "pysnark.fixedpoint", "LinCombBool": "pysnark.boolean"}[_owner]
    register(type("NoPlain_%s_%s" % (_owner, _m.strip("_")), (_NoPlain,),
                  dict(name="%s:%s.%s" % (_mod, _owner, _m), owner=_owner, method=_m, must_raise=_exc,
                       __doc__="%s.%s: a secret is never converted to a plain value" % (_owner, _m))))


# ---------------------------------------------------------------------------
# formatting a secret (print / str / repr / %s in debug output) is pure: a string, no event, nothing made public
# ---------------------------------------------------------------------------

class _Repr(Contract):
    facets = "VRTNK"
    vprops = ("C05", "C17")
    tprops = ("C06", "C17")
    sprops = eprops = cprops = ()
    guard_relevant = False
    owner = "LinComb"
    modules = ("pysnark.runtime", "pysnark.boolean", "pysnark.fixedpoint", "pysnark.branching")

    def configs(self, tier):
        return [dict(mode=m) for m in ("plain", "g0")]

    def setup(self, c, cfg):
        apply_mode(c, cfg["mode"])
        c.w.modules["pysnark.fixedpoint"].resolution = 3
        o = {"LinComb": lambda: c.operand("x"), "LinCombBool": lambda: c.operand_bool("x"),
             "LinCombFxp": lambda: c.mk_fxp(c.operand("x"))}[self.owner]()
        return getattr(getattr(c, self.owner), "__repr__"), (o,), {}

    def use_stub(self, c, *a, **k):
        return False

    def post(self, c, r, x):
        return {"V.is_text": isinstance(r, str)}

    def counts(self, c, x):
        return (0, 0, 0)


for _owner, _mod in (("LinComb", "pysnark.runtime"), ("LinCombBool", "pysnark.boolean"), ("LinCombFxp", "pysnark.fixedpoint")):
    register(type("Repr_" + _owner, (_Repr,), dict(name="%s:%s.__repr__" % (_mod, _owner), owner=_owner,
                                                   __doc__="%s.__repr__: text only, no event" % _owner)))
