"""Contract for the module-level backend selection of pysnark/runtime.py (C19).

The module body of runtime.py (lines up to the selection's end, then the rest of the module)
is executed as an initialiser whose *environment is symbolic*:

  pre[i]       backend module i was imported before the runtime          (8 booleans)
  env          PYSNARK_BACKEND is unset / names backend j / names nothing known
  loadable[i]  importing backend module i succeeds                        (8 booleans)
  ipython      get_ipython() exists

Every path of the selection code fixes only the part of the environment it looks at, so
the ~10^6 environments are covered by a few hundred paths.  When a decision makes a module
present, the REAL module is loaded through the interpreter (absent third-party dependencies
are stubbed: only their presence matters to the selection), so `backend.get_modulus()` and
the interface check below are evaluated on the real code."""
import types
import z3
from .common import *
from .backend_c import _stub_world, BN254_R, BLS12_381_R, CURVE25519_L

BACKENDS = [
    ("libsnark", "pysnark.libsnark.backend"),
    ("libsnarkgg", "pysnark.libsnark.backendgg"),
    ("qaptools", "pysnark.qaptools.backend"),
    ("snarkjs", "pysnark.snarkjsbackend"),
    ("zkinterface", "pysnark.zkinterface.backend"),
    ("zkifbellman", "pysnark.zkinterface.backendbellman"),
    ("zkifbulletproofs", "pysnark.zkinterface.backendbulletproofs"),
    ("nobackend", "pysnark.nobackend"),
]
NAMES = [b[0] for b in BACKENDS]
PATHS = [b[1] for b in BACKENDS]
# import graph between backend modules (read off their import statements): derived => base
DERIVED = {1: 0, 5: 4, 6: 4}
FIELD = {"snarkjs": BN254_R, "qaptools": BN254_R, "zkinterface": BN254_R,
         "zkifbellman": BLS12_381_R, "zkifbulletproofs": CURVE25519_L}
INTERFACE = ("privval", "pubval", "zero", "one", "fieldinverse", "get_modulus", "add_constraint", "prove")

PRE = [z3.Bool("k_pre_%s" % n) for n in NAMES]
LOAD = [z3.Bool("k_loadable_%s" % n) for n in NAMES]
ENV = z3.Int("k_env")            # -1 unset, 0..7 the known names, 8 an unknown name
IPY = z3.Bool("k_ipython")
# how an unloadable backend fails to import: a missing package (ImportError), missing external tools (RuntimeError, as
# the qaptools backend raises), an outdated binding (AttributeError in the module body), a broken shared object (OSError)
KIND = z3.Int("k_failure_kind")
FAILURES = (ImportError, RuntimeError, AttributeError, OSError)


class _Anything:
    """Permissive stand-in for the absent libsnark binding."""

    def __init__(self, *a, **k):
        pass

    def __call__(self, *a, **k):
        return _Anything()

    def __getattr__(self, n):
        if n.startswith("__"):
            raise AttributeError(n)
        return _Anything()


class SymStr:
    """The value of PYSNARK_BACKEND: only ever compared for equality with the known names."""

    def __eq__(self, o):
        if isinstance(o, str) and o in NAMES:
            return liftb(ENV == NAMES.index(o))
        return NotImplemented

    def __ne__(self, o):
        r = self.__eq__(o)
        return NotImplemented if r is NotImplemented else liftb(z3.Not(formula(r)))

    def __radd__(self, o):
        return str(o) + "<PYSNARK_BACKEND>"

    def __add__(self, o):
        return "<PYSNARK_BACKEND>" + str(o)

    def __str__(self):
        return "<PYSNARK_BACKEND>"

    def __hash__(self):
        return 0


class SymEnviron(dict):
    def sym_contains(self, k):
        if k == "PYSNARK_BACKEND":
            return liftb(ENV >= 0)
        return dict.__contains__(self, k)

    def __contains__(self, k):
        return sym.truth(self.sym_contains(k)) if k == "PYSNARK_BACKEND" else dict.__contains__(self, k)

    def __getitem__(self, k):
        if k == "PYSNARK_BACKEND":
            if not cur().decide(ENV >= 0):
                raise KeyError(k)
            return SymStr()
        return dict.__getitem__(self, k)


from pyvc import sym  # noqa: E402


class SymModules(dict):
    """sys.modules whose backend entries are decided lazily: deciding that a backend module
    was imported before the runtime loads it (and, through its imports, its base)."""

    def __init__(self, world):
        super().__init__()
        self.world = world
        self.pre_decided = {}
        self.selection_started = False

    def sym_contains(self, k):
        if k in PATHS and self.selection_started and not dict.__contains__(self, k):
            i = PATHS.index(k)
            if i not in self.pre_decided:
                self.pre_decided[i] = cur().decide(PRE[i])
                if self.pre_decided[i]:
                    self.world.real_import(k)
            return dict.__contains__(self, k)
        return dict.__contains__(self, k)

    def __contains__(self, k):
        return self.sym_contains(k)


@register
class Selection(Contract):
    name = "pysnark.runtime:<module>"
    layer = "process"
    probe = True
    modules = ()
    cprops = sprops = eprops = tprops = ()
    vprops = ("C19",)
    fprops = ("C19",)
    guard_relevant = False

    def configs(self, tier):
        return [dict(space="all pre-import sets x all PYSNARK_BACKEND values x all loadability maps x ipython")]

    def world_setup(self, w):
        _stub_world(w)
        ls = types.ModuleType("libsnark")
        lsa = _Anything()
        w.module_overrides["libsnark"] = ls
        w.module_overrides["libsnark.alt_bn128"] = lsa
        ls.alt_bn128 = lsa
        mods = SymModules(w)
        w.modules = mods
        w.vsys.modules = mods
        w.environ = SymEnviron()
        w.vos.environ = w.environ
        orig_import = w.import_module
        w.real_import = orig_import

        def guarded_import(name):
            if name in PATHS and not dict.__contains__(w.modules, name):
                i = PATHS.index(name)
                w.import_attempts.append(name)
                if name != "pysnark.nobackend" and not cur().decide(LOAD[i]):
                    for k, exc in enumerate(FAILURES[:-1]):
                        if cur().decide(KIND == k):
                            raise exc("backend module %s is not loadable in this environment" % name)
                    raise FAILURES[-1]("backend module %s is not loadable in this environment" % name)
            return orig_import(name)
        w.import_module = guarded_import
        w.import_attempts = []
        if "get_ipython" not in w.builtins:
            def v_get_ipython():
                if not cur().decide(IPY):
                    raise NameError("name 'get_ipython' is not defined")
                return object()
            w.builtins["get_ipython"] = v_get_ipython

    def pre(self, c):
        out = []
        # closure of the pre-import set under the backends' own imports, and: what was imported is loadable
        for d, b in DERIVED.items():
            out.append(Implies(PRE[d], PRE[b]))
        for i in range(len(NAMES)):
            out.append(Implies(PRE[i], LOAD[i]))
        for d, b in DERIVED.items():
            out.append(Implies(LOAD[d], LOAD[b]))
        out.append(And(ENV >= -1, ENV <= 8))
        out.append(And(KIND >= 0, KIND < len(FAILURES)))
        out.append(LOAD[7])                   # pysnark.nobackend is pure Python and always loads
        return out

    def setup(self, c, cfg):
        w = c.w

        def select():
            w.modules.selection_started = True
            rt = w.real_import("pysnark.runtime")
            return rt
        return select, (), {}

    def raises(self, c):
        # a known name whose module cannot be loaded fails loudly (the import's own exception propagates); in
        # auto-detection an unloadable backend is skipped, however it fails
        no_pre = Not(Or(*PRE))
        conds = [And(no_pre, ENV == i, Not(LOAD[i])) for i in range(len(NAMES))]
        return [(exc, And(Or(*conds), KIND == k)) for k, exc in enumerate(FAILURES)]

    def post(self, c, rt):
        w = c.w
        name, backend = rt.backend_name, rt.backend
        d = {}
        idx = NAMES.index(name) if name in NAMES else None
        d["V.name_is_known"] = idx is not None
        if idx is None:
            return d
        any_pre = Or(*PRE)
        no_pre = Not(any_pre)
        first_pre = [And(PRE[i], *[Not(PRE[j]) for j in range(i)]) for i in range(len(NAMES))]
        # P1: a pre-imported backend is used
        d["V.preimported_backend_is_used"] = Implies(any_pre, PRE[idx])
        # the name identifies the module receiving the constraints ...
        d["V.name_identifies_module"] = dict.__contains__(w.modules, PATHS[idx]) and backend is dict.__getitem__(w.modules, PATHS[idx])
        # ... and the field it works in (most-derived pre-imported module decides the field)
        d["V.preimported_derived_backend_named"] = And(*[Implies(PRE[dv], idx != b) for dv, b in DERIVED.items()])
        if name in FIELD:
            try:
                d["V.name_identifies_field"] = backend.get_modulus() == FIELD[name]
            except Exception as e:  # noqa
                d["V.name_identifies_field"] = False
        if name.startswith("libsnark"):
            base = dict.__getitem__(w.modules, PATHS[0]) if dict.__contains__(w.modules, PATHS[0]) else None
            d["V.name_identifies_proof_system"] = base is not None and (bool(getattr(base, "use_groth", False)) == (name == "libsnarkgg"))
        # P2: a known name selects exactly that backend
        d["V.env_names_backend"] = And(*[Implies(And(no_pre, ENV == i), idx == i) for i in range(len(NAMES))])
        # P3: an unknown name is reported before falling back
        msgs = [a for (stream, a) in w.stdout if a and isinstance(a[0], str) and "unknown backend" in a[0]]
        d["V.unknown_name_reported"] = Implies(And(no_pre, ENV == 8), len(msgs) > 0)
        d["V.no_spurious_report"] = Implies(Or(any_pre, ENV != 8), len(msgs) == 0)
        # P4: auto-detection = ipython -> nobackend, else the first loadable backend in list order
        auto = And(no_pre, Or(ENV == -1, ENV == 8))
        first_loadable = [And(LOAD[i], *[Not(LOAD[j]) for j in range(i)]) for i in range(len(NAMES))]
        d["V.autodetect_ipython"] = Implies(And(auto, IPY), idx == 7)
        d["V.autodetect_first_loadable"] = And(*[Implies(And(auto, Not(IPY), first_loadable[i]), idx == i) for i in range(len(NAMES))])
        d["V.autodetect_only_without_known_name"] = Implies(And(no_pre, ENV >= 0, ENV <= 7), idx == ENV)
        # interface conformance of the module in effect (real module, loaded through the interpreter)
        missing = [f for f in INTERFACE if not callable(getattr(backend, f, None))]
        d["V.interface_complete[%s]" % name] = not missing
        # a DERIVED backend (the Groth16 variant of libsnark, the other fields of zkinterface) is its base module with one
        # switch set: whatever entry point the runtime may look up on the base (process_snark, keygen_only, ...) it finds
        # on the derived module too
        base_path = {"libsnarkgg": PATHS[0], "zkifbellman": "pysnark.zkinterface.backend", "zkifbulletproofs": "pysnark.zkinterface.backend"}.get(name)
        if base_path is not None and dict.__contains__(w.modules, base_path):
            base_mod = dict.__getitem__(w.modules, base_path)
            lacking = sorted(n for n, v in list(vars(base_mod).items()) if not n.startswith("_") and callable(v) and not hasattr(backend, n))
            d["V.derived_backend_offers_all_of_its_base[%s]" % name] = not lacking
        d["F.backend_not_none"] = backend is not None
        d["canary.V.env_names_backend"] = And(*[Implies(And(no_pre, ENV == i), idx == (i + 1) % 8) for i in range(len(NAMES))])
        return d


# ---------------------------------------------------------------------------
# replay on the real interpreter: one subprocess per environment
# ---------------------------------------------------------------------------
_PROBE = r'''
import sys, os, json, builtins, types, importlib.abc
cfg = json.load(open(sys.argv[1]))
sys.path.insert(0, cfg["stubs"]); sys.path.insert(0, cfg["repo"])
blocked = set(cfg["blocked"])
class Block(importlib.abc.MetaPathFinder):
    def find_spec(self, name, path, target=None):
        if name in blocked:
            raise getattr(builtins, cfg.get("failure", "ImportError"))("blocked for replay: " + name)
        return None
sys.meta_path.insert(0, Block())
if cfg["ipython"]:
    builtins.get_ipython = lambda: object()
if cfg["env"] is None:
    os.environ.pop("PYSNARK_BACKEND", None)
else:
    os.environ["PYSNARK_BACKEND"] = cfg["env"]
out = {"printed": []}
import io, contextlib
buf = io.StringIO()
try:
    with contextlib.redirect_stdout(buf):
        for m in cfg["preimport"]:
            importlib.import_module(m)
        import pysnark.runtime as rt
    import atexit; atexit._clear()
    b = rt.backend
    out.update(backend_name=rt.backend_name, module=getattr(b, "__name__", None))
    try: out["modulus"] = b.get_modulus()
    except Exception as e: out["modulus"] = None
    base = sys.modules.get("pysnark.libsnark.backend")
    out["use_groth"] = bool(getattr(base, "use_groth", False)) if base else None
    out["interface_missing"] = [f for f in cfg["interface"] if not callable(getattr(b, f, None))]
except BaseException as e:
    out["exception"] = type(e).__name__ + ": " + str(e)[:200]
out["printed"] = buf.getvalue().splitlines()
json.dump(out, open(sys.argv[2], "w"), default=str)
'''


def make_stub_env(tmp):
    """Scratch directory with stand-ins for the third-party packages absent from this sandbox
    (flatbuffers, libsnark) and a failing `qapgen` executable; returns (stubs_dir, env)."""
    import os
    stubs = os.path.join(tmp, "stubs")
    os.makedirs(os.path.join(stubs, "flatbuffers"))
    open(os.path.join(stubs, "flatbuffers", "__init__.py"), "w").write("")
    open(os.path.join(stubs, "flatbuffers", "compat.py"), "w").write("def import_numpy():\n    return None\n")
    os.makedirs(os.path.join(stubs, "libsnark"))
    open(os.path.join(stubs, "libsnark", "__init__.py"), "w").write("")
    open(os.path.join(stubs, "libsnark", "alt_bn128.py"), "w").write(
        "class _A:\n    def __init__(s,*a,**k): pass\n    def __call__(s,*a,**k): return _A()\n    def __getattr__(s,n):\n        if n.startswith('__'): raise AttributeError(n)\n        return _A()\n"
        "import sys\nclass _M(type(sys)):\n    def __getattr__(s,n):\n        if n.startswith('__'): raise AttributeError(n)\n        return _A()\nsys.modules[__name__].__class__ = _M\n")
    bindir = os.path.join(tmp, "bin")
    os.makedirs(bindir)
    qg = os.path.join(bindir, "qapgen")
    open(qg, "w").write("#!/bin/sh\nexit 1\n")
    os.chmod(qg, 0o755)
    env = dict(os.environ, PATH=bindir + os.pathsep + os.environ.get("PATH", ""), PYSNARK_KEYDIR=tmp)
    env.pop("PYSNARK_BACKEND", None)
    return stubs, env


def _selection_replay(self, ob, cfg):
    import json, os, subprocess, sys, tempfile, shutil
    from pyvc.replay import REPO
    model = ob.get("model") or {}
    tmp = tempfile.mkdtemp(prefix="pyvc_sel_")
    try:
        stubs, env = make_stub_env(tmp)
        if False:
            pass
        truth = lambda k: str(model.get(k, "False")) == "True"
        pre = [i for i, n in enumerate(NAMES) if truth("k_pre_" + n)]
        pre = [i for i in pre if not any(DERIVED.get(j) == i and j in pre for j in pre)]      # most-derived modules
        env_i = int(model.get("k_env", -1))
        blocked = [PATHS[i] for i, n in enumerate(NAMES) if not truth("k_loadable_" + n) and i not in pre and n != "nobackend"]
        req = dict(stubs=stubs, repo=REPO, blocked=blocked, ipython=truth("k_ipython"),
                   env=None if env_i < 0 else (NAMES[env_i] if env_i < 8 else "no-such-backend"),
                   preimport=[PATHS[i] for i in pre], interface=list(INTERFACE),
                   failure=FAILURES[int(model.get("k_failure_kind", 0)) % len(FAILURES)].__name__)
        rq, outp = os.path.join(tmp, "req.json"), os.path.join(tmp, "out.json")
        json.dump(req, open(rq, "w"))
        script = os.path.join(tmp, "probe.py")
        open(script, "w").write(_PROBE)
        pr = subprocess.run([sys.executable, script, rq, outp], cwd=tmp, capture_output=True, text=True, timeout=60, env=env)
        res = json.load(open(outp)) if os.path.exists(outp) else dict(exception="no output", stderr=pr.stderr[-800:])
        res["environment"] = {k: req[k] for k in ("env", "preimport", "blocked", "ipython", "failure")}
        confirmed = False
        clause = ob["name"]
        name = res.get("backend_name")
        if "exception" not in res and name in NAMES:
            idx = NAMES.index(name)
            if clause == "V.preimported_derived_backend_named":
                confirmed = any(truth("k_pre_" + NAMES[d]) and idx == b for d, b in DERIVED.items())
            elif clause == "V.name_identifies_field":
                confirmed = name in FIELD and res.get("modulus") != FIELD[name]
            elif clause == "V.name_identifies_module":
                confirmed = res.get("module") != PATHS[idx]
            elif clause.startswith("V.interface_complete"):
                confirmed = bool(res.get("interface_missing"))
            elif clause == "V.preimported_backend_is_used":
                confirmed = bool(pre) and not truth("k_pre_" + name)
            elif clause in ("V.env_names_backend", "V.autodetect_only_without_known_name"):
                confirmed = (not pre) and 0 <= env_i < 8 and idx != env_i
            elif clause == "V.unknown_name_reported":
                confirmed = (not pre) and env_i == 8 and not any("unknown backend" in l for l in res["printed"])
            elif clause == "V.autodetect_ipython":
                confirmed = idx != 7
            elif clause == "V.autodetect_first_loadable":
                first = next((i for i, n in enumerate(NAMES) if truth("k_loadable_" + n) or n == "nobackend"), 7)
                confirmed = idx != first
            elif clause == "V.name_identifies_proof_system":
                confirmed = res.get("use_groth") is not None and res["use_groth"] != (name == "libsnarkgg")
        elif "exception" in res and clause.startswith(("R.unexpected_exception[", "R.raise_implies_cond[")):
            # the selection let an exception escape where it has to carry on: only a known name whose module
            # cannot be loaded may fail
            exc = clause.split("[")[1].split("]")[0].split("#")[0]
            named_unloadable = (not pre) and 0 <= env_i < 8 and PATHS[env_i] in blocked
            confirmed = res["exception"].startswith(exc + ":") and not named_unloadable
        res["confirmed"] = bool(confirmed)
        return res
    finally:
        shutil.rmtree(tmp, ignore_errors=True)


Selection.native_replay = _selection_replay
