"""Contract for runtime.snark (C17): a wrapped function exposes exactly its numeric arguments
and its secret results as public values."""
import z3
from .common import *
from pyvc import ghost as gh
from pyvc.interp import SymRat

MODS = ("pysnark.runtime", "pysnark.boolean", "pysnark.fixedpoint", "pysnark.branching")

# argument structures: leaves 'i' int, 'f' float (concrete 1.5), 's' str (non-numeric), 'L' an already-secret LinComb
ARGS = [
    ("i",),
    ("i", ["i", "i"]),
    ({"a": "i", "b": ("i", ["i"])}, "i"),
    ("f", "i"),
    ("s", "i"),
    (),
]
# result structures: 'L' secret int, 'F' secret fixed-point, 'B' secret boolean, 'k' plain int, 'n' None
RETS = ["L", ["L", "k"], ("F", "B"), {"x": "L", "y": ["L"]}, "k", "n", ["L", "L", "L"]]


def _build(struct, leaf):
    if isinstance(struct, list):
        return [_build(x, leaf) for x in struct]
    if isinstance(struct, tuple):
        return tuple(_build(x, leaf) for x in struct)
    if isinstance(struct, dict):
        return {k: _build(v, leaf) for k, v in struct.items()}
    return leaf(struct)


def _leaves(struct):
    if isinstance(struct, (list, tuple)):
        out = []
        for x in struct:
            out += _leaves(x)
        return out
    if isinstance(struct, dict):
        out = []
        for k in struct:
            out += _leaves(struct[k])
        return out
    return [struct]


def _same_shape(a, b):
    if isinstance(a, (list, tuple)):
        return type(a) is type(b) and len(a) == len(b) and all(_same_shape(x, y) for x, y in zip(a, b))
    if isinstance(a, dict):
        return isinstance(b, dict) and list(a) == list(b) and all(_same_shape(a[k], b[k]) for k in a)
    return not isinstance(b, (list, tuple, dict))


@register
class Snark(Contract):
    name = "pysnark.runtime:snark.<locals>.snark__"
    modules = MODS
    cprops = eprops = ()
    sprops = ("C17",)
    vprops = ("C17",)
    tprops = ("C17",)
    fprops = ("C17",)
    guard_relevant = False

    def configs(self, tier):
        out = [dict(args=repr(a), ret=repr(RETS[0]), res=3) for a in ARGS]
        out += [dict(args=repr(ARGS[1]), ret=repr(r), res=3) for r in RETS[1:]]
        out.append(dict(args=repr(ARGS[0]), ret=repr("L"), res=3, kwargs=True, raises_only=True))
        return out

    def use_stub(self, c, *a, **k):
        return False

    def setup(self, c, cfg):
        apply_mode(c, "plain", bitlength=4)
        c.w.modules["pysnark.fixedpoint"].resolution = cfg["res"]
        g = c.g
        n = [0]

        def arg_leaf(kind):
            n[0] += 1
            if kind == "i":
                return c.public_int("arg%d" % n[0])
            if kind == "f":
                return 1.5
            return "text"
        self._args = _build(eval(cfg["args"]), arg_leaf)
        ret_struct = eval(cfg["ret"])
        self._span = [None, None]
        self._received = None
        self._secret = []

        def body(*a, **k):
            # an arbitrary body: its own events (a witness, a constraint), then results
            self._span[0] = len(g.trace)
            self._received = a
            w = c.rt.PrivVal(SymInt(z3.Int("s_body_witness")))
            c.rt.add_constraint_unsafe(w, w, w * w if False else c.rt.LinComb.ZERO) if False else None
            m = [0]

            def ret_leaf(kind):
                m[0] += 1
                if kind == "L":
                    x = c.operand("out%d" % m[0])
                elif kind == "F":
                    x = c.mk_fxp(c.operand("out%d" % m[0]))
                elif kind == "B":
                    x = c.operand_bool("out%d" % m[0])
                elif kind == "k":
                    return 42 + m[0]
                else:
                    return None
                self._secret.append(x)
                return x
            r = _build(ret_struct, ret_leaf)
            self._ret = r
            self._span[1] = len(g.trace)
            return r
        self._body = body
        kw = {"flag": 1} if cfg.get("kwargs") else {}
        return c.rt.snark(body), tuple(self._args), kw

    def raises(self, c, *a, **kw):
        return [(ValueError, bool(kw))]

    def post_exc(self, c, e, *a, **kw):
        return {"F.no_event_before_refusal": len(c.g.trace) == 0 and self._span[0] is None}

    def post(self, c, r, *a, **kw):
        g = c.g
        R = 1 << c.cfg["res"]
        s0, s1 = self._span
        before = g.trace[:s0]
        after = g.trace[s1:]
        leaves = _leaves(list(self._args))
        numeric = [x for x in leaves if isinstance(x, (int, float)) and not isinstance(x, str)]
        d = {}
        # inputs: one public variable per numeric leaf, in depth-first order, and nothing else
        pubs_before = [e.var for e in before if isinstance(e, gh.Alloc)]
        d["T.inputs_count"] = len(before) == len(numeric) and all(v.kind == "pub" for v in pubs_before)
        if d["T.inputs_count"]:
            want = [term(x) if isinstance(x, int) else z3.IntVal(int(x * R)) for x in numeric]
            d["V.inputs_in_order"] = And(*[v.h == wv for v, wv in zip(pubs_before, want)])
            got = _leaves(list(self._received))
            d["V.body_receives_same_shape"] = _same_shape(list(self._args), list(self._received))
            sec = [x for x in got if hasattr(x, "lc")]
            wires = [list(c.lc(x).m.keys()) for x in sec]
            d["V.body_receives_public_wires"] = (len(sec) == len(numeric) and all(len(w_) == 1 for w_ in wires)
                                                 and sorted(id(w_[0]) for w_ in wires) == sorted(id(v) for v in pubs_before))
            # each leaf the body receives carries the value of the argument at the same position
            num_got = [y for x, y in zip(leaves, got) if isinstance(x, (int, float)) and not isinstance(x, str)]
            d["V.body_receives_argument_values"] = And(*[Eq(c.v(y), wv) for y, wv in zip(num_got, want)]) if len(num_got) == len(want) else False
            d["V.non_numeric_passed_through"] = all(y is x for x, y in zip(leaves, got) if isinstance(x, str))
        # outputs: one public variable per secret result, in order, tied by a constraint
        pubs_after = [e.var for e in after if isinstance(e, gh.Alloc) and e.var.kind == "pub"]
        d["T.outputs_count"] = len(pubs_after) == len(self._secret) and not any(
            isinstance(e, gh.Alloc) and e.var.kind != "pub" for e in after)
        if d["T.outputs_count"]:
            d["V.outputs_in_order"] = And(*[modeq(v.h, c.v(o), c.p) for v, o in zip(pubs_after, self._secret)])
        d["V.returns_same_shape"] = _same_shape(self._ret, r)
        if d["V.returns_same_shape"]:
            outs = _leaves(r)
            ins = _leaves(self._ret)
            cl = []
            for o, i in zip(outs, ins):
                if isinstance(i, c.LinCombFxp):
                    cl.append(isinstance(o, SymRat) and And(o.num == c.v(i), o.den == R))
                elif hasattr(i, "lc"):
                    cl.append(Eq(o, c.v(i)) if isinstance(o, int) else False)
                else:
                    cl.append(o is i or o == i)
            d["V.returns_plain_values"] = And(*cl) if cl else True
        d["S.outputs_tied"] = And(*[v.a == c.eva(o) for v, o in zip(pubs_after, self._secret)]) if self._secret and d["T.outputs_count"] else True
        d["T.nothing_else_public"] = (g.npub == len(numeric) + len(self._secret))
        return d
