"""Contract for runtime.snark (C17): a wrapped function exposes exactly its numeric arguments
and its secret results as public values."""
import z3
from .common import *
from pyvc import ghost as gh
from pyvc.interp import SymRat

MODS = ("pysnark.runtime", "pysnark.boolean", "pysnark.fixedpoint", "pysnark.branching")

# argument structures: leaves 'i' int, 'f' float (concrete 1.5), 's' str (non-numeric), 'L' an already-secret LinComb
class Word(int):
    """an int subclass (as IntEnum members are): still a numeric argument"""


ARGS = [
    ("i",),
    ("i", ["i", "i"]),
    ({"a": "i", "b": ("i", ["i"])}, "i"),
    ("f", "i"),
    ("s", "i"),
    (),
    ("i", "w"),              # 'w': an instance of an int subclass
    ("w", ["i"]),
    ("g", ["f", "g"]),       # 'g': a negative non-integral float (-1.5): encoded as -1.5 * 2^r, not as int(-1.5) * 2^r + ...
]
# result structures: 'L' secret int, 'F' secret fixed-point, 'B' secret boolean, 'k' plain int, 'n' None
# 'S': the SAME secret object as the previous secret leaf (a wire reported twice gets two outputs, each tied)
RETS = ["L", ["L", "k"], ("F", "B"), {"x": "L", "y": ["L"]}, "k", "n", ["L", "L", "L"], ["L", "S"], {"a": "L", "b": ("S", "L")}]


def _build(struct, leaf):
    if isinstance(struct, list):
        return [_build(x, leaf) for x in struct]
    if isinstance(struct, tuple):
        return tuple(_build(x, leaf) for x in struct)
    if isinstance(struct, dict):
        return {k: _build(v, leaf) for k, v in struct.items()}
    return leaf(struct)


def _leaves(struct):
    if isinstance(struct, (list, tuple)):
        out = []
        for x in struct:
            out += _leaves(x)
        return out
    if isinstance(struct, dict):
        out = []
        for k in struct:
            out += _leaves(struct[k])
        return out
    return [struct]


def _same_shape(a, b):
    if isinstance(a, (list, tuple)):
        return type(a) is type(b) and len(a) == len(b) and all(_same_shape(x, y) for x, y in zip(a, b))
    if isinstance(a, dict):
        return isinstance(b, dict) and list(a) == list(b) and all(_same_shape(a[k], b[k]) for k in a)
    return not isinstance(b, (list, tuple, dict))


@register
class Snark(Contract):
    name = "pysnark.runtime:snark.<locals>.snark__"
    history_ok = False        # its clauses index the whole trace of the run (inputs before, outputs after the body)
    modules = MODS
    cprops = eprops = ()
    sprops = ("C17",)
    vprops = ("C17",)
    tprops = ("C17", "C06")   # the events of a wrapped call do not depend on the argument VALUES (C06: same circuit for every input)
    fprops = ("C17",)
    guard_relevant = False

    def configs(self, tier):
        out = [dict(args=repr(a), ret=repr(RETS[0]), res=3) for a in ARGS]
        out += [dict(args=repr(ARGS[1]), ret=repr(r), res=3) for r in RETS[1:]]
        out.append(dict(args=repr(ARGS[0]), ret=repr("L"), res=3, kwargs=True, raises_only=True))
        return out

    def use_stub(self, c, *a, **k):
        return False

    def setup(self, c, cfg):
        apply_mode(c, "plain", bitlength=4)
        c.w.modules["pysnark.fixedpoint"].resolution = cfg["res"]
        g = c.g
        n = [0]

        def arg_leaf(kind):
            n[0] += 1
            if kind == "i":
                return c.public_int("arg%d" % n[0])
            if kind == "w":
                return Word(40 + n[0])
            if kind == "f":
                return 1.5
            if kind == "g":
                return -1.5
            return "text"
        self._args = _build(eval(cfg["args"]), arg_leaf)
        ret_struct = eval(cfg["ret"])
        self._span = [None, None]
        self._received = None
        self._secret = []

        def body(*a, **k):
            # an arbitrary body: its own events (a witness, a constraint), then results
            self._span[0] = len(g.trace)
            self._received = a
            w = c.rt.PrivVal(SymInt(z3.Int("s_body_witness")))
            c.rt.add_constraint_unsafe(w, w, w * w if False else c.rt.LinComb.ZERO) if False else None
            m = [0]

            def ret_leaf(kind):
                m[0] += 1
                if kind == "S":
                    x = self._secret[-1]
                elif kind == "L":
                    x = c.operand("out%d" % m[0])
                elif kind == "F":
                    x = c.mk_fxp(c.operand("out%d" % m[0]))
                elif kind == "B":
                    x = c.operand_bool("out%d" % m[0])
                elif kind == "k":
                    return 42 + m[0]
                else:
                    return None
                self._secret.append(x)
                return x
            r = _build(ret_struct, ret_leaf)
            self._ret = r
            self._span[1] = len(g.trace)
            return r
        self._body = body
        kw = {"flag": 1} if cfg.get("kwargs") else {}
        return c.rt.snark(body), tuple(self._args), kw

    def raises(self, c, *a, **kw):
        return [(ValueError, bool(kw))]

    def post_exc(self, c, e, *a, **kw):
        return {"F.no_event_before_refusal": len(c.g.trace) == 0 and self._span[0] is None}

    def post(self, c, r, *a, **kw):
        g = c.g
        R = 1 << c.cfg["res"]
        s0, s1 = self._span
        before = g.trace[:s0]
        after = g.trace[s1:]
        leaves = _leaves(list(self._args))
        numeric = [x for x in leaves if isinstance(x, (int, float)) and not isinstance(x, str)]
        d = {}
        # inputs: one public variable per numeric leaf, in depth-first order, and nothing else
        pubs_before = [e.var for e in before if isinstance(e, gh.Alloc)]
        d["T.inputs_count"] = len(before) == len(numeric) and all(v.kind == "pub" for v in pubs_before)
        if d["T.inputs_count"]:
            want = [term(x) if isinstance(x, int) else z3.IntVal(int(x * R)) for x in numeric]
            d["V.inputs_in_order"] = And(*[v.h == wv for v, wv in zip(pubs_before, want)])
            got = _leaves(list(self._received))
            d["V.body_receives_same_shape"] = _same_shape(list(self._args), list(self._received))
            sec = [x for x in got if hasattr(x, "lc")]
            wires = [list(c.lc(x).m.keys()) for x in sec]
            d["V.body_receives_public_wires"] = (len(sec) == len(numeric) and all(len(w_) == 1 for w_ in wires)
                                                 and sorted(id(w_[0]) for w_ in wires) == sorted(id(v) for v in pubs_before))
            # each leaf the body receives carries the value of the argument at the same position
            num_got = [y for x, y in zip(leaves, got) if isinstance(x, (int, float)) and not isinstance(x, str)]
            d["V.body_receives_argument_values"] = And(*[Eq(c.v(y), wv) for y, wv in zip(num_got, want)]) if len(num_got) == len(want) else False
            d["V.non_numeric_passed_through"] = all(y is x for x, y in zip(leaves, got) if isinstance(x, str))
        # outputs: one public variable per secret result, in order, tied by a constraint
        pubs_after = [e.var for e in after if isinstance(e, gh.Alloc) and e.var.kind == "pub"]
        d["T.outputs_count"] = len(pubs_after) == len(self._secret) and not any(
            isinstance(e, gh.Alloc) and e.var.kind != "pub" for e in after)
        if d["T.outputs_count"]:
            d["V.outputs_in_order"] = And(*[modeq(v.h, c.v(o), c.p) for v, o in zip(pubs_after, self._secret)])
        d["V.returns_same_shape"] = _same_shape(self._ret, r)
        if d["V.returns_same_shape"]:
            outs = _leaves(r)
            ins = _leaves(self._ret)
            cl = []
            for o, i in zip(outs, ins):
                if isinstance(i, c.LinCombFxp):
                    cl.append(isinstance(o, SymRat) and And(o.num == c.v(i), o.den == R))
                elif hasattr(i, "lc"):
                    cl.append(Eq(o, c.v(i)) if isinstance(o, int) else False)
                else:
                    cl.append(o is i or o == i)
            d["V.returns_plain_values"] = And(*cl) if cl else True
        d["S.outputs_tied"] = And(*[v.a == c.eva(o) for v, o in zip(pubs_after, self._secret)]) if self._secret and d["T.outputs_count"] else True
        d["T.nothing_else_public"] = (g.npub == len(numeric) + len(self._secret))
        return d


_NATIVE = r'''
import sys, json, atexit
sys.path.insert(0, sys.argv[1])
import pysnark.snarkjsbackend as be
import pysnark.runtime as rt
import pysnark.fixedpoint as fx
import pysnark.boolean as bo
atexit._clear()
req = json.load(open(sys.argv[2]))
fx.resolution = req["res"]
R = 1 << req["res"]
ARGS = eval(req["args"]); RET = eval(req["ret"])
ints = iter(req["ints"]); outs = iter(req["outs"])

def build(s, leaf):
    if isinstance(s, list): return [build(x, leaf) for x in s]
    if isinstance(s, tuple): return tuple(build(x, leaf) for x in s)
    if isinstance(s, dict): return {k: build(v, leaf) for k, v in s.items()}
    return leaf(s)

def leaves(s):
    if isinstance(s, (list, tuple)): return [y for x in s for y in leaves(x)]
    if isinstance(s, dict): return [y for k in s for y in leaves(s[k])]
    return [s]

def same_shape(a, b):
    if isinstance(a, (list, tuple)): return type(a) is type(b) and len(a) == len(b) and all(same_shape(x, y) for x, y in zip(a, b))
    if isinstance(a, dict): return isinstance(b, dict) and list(a) == list(b) and all(same_shape(a[k], b[k]) for k in a)
    return not isinstance(b, (list, tuple, dict))

class Word(int):
    pass
_n = [0]
def _arg(k):
    _n[0] += 1
    if k == "i": return next(ints)
    if k == "w": return Word(40 + _n[0])
    if k == "g": return -1.5
    return 1.5 if k == "f" else "text"
args = build(ARGS, _arg)
state = {}
def body(*a, **k):
    state["pub_at_entry"] = list(be.pubvals); state["priv_at_entry"] = len(be.privvals)
    state["received"] = a
    rt.PrivVal(7)
    secret = []
    def leaf(kind):
        if kind == "S": x = secret[-1]
        elif kind == "L": x = rt.PrivVal(next(outs))
        elif kind == "F": x = fx.LinCombFxp(rt.PrivVal(next(outs)), False)
        elif kind == "B": x = bo.LinCombBool(rt.PrivVal(next(outs) % 2), False)
        elif kind == "k": return 43
        else: return None
        secret.append(x); return x
    r = build(RET, leaf)
    state["ret"] = r; state["secret"] = secret
    state["pub_at_exit"] = len(be.pubvals)
    return r
out = {}
try:
    r = rt.snark(body)(*args, **({"flag": 1} if req.get("kwargs") else {}))
    out["outcome"] = "return"
except BaseException as e:
    out["outcome"] = "raise"; out["exception"] = type(e).__name__; out["message"] = str(e)[:200]
    r = None
numeric = [x for x in leaves(list(args)) if isinstance(x, (int, float)) and not isinstance(x, str)]
want = [x if isinstance(x, int) else int(x * R) for x in numeric]
ok = {}
if out["outcome"] == "return":
    ok["T.inputs_count"] = len(state["pub_at_entry"]) == len(numeric) and state["priv_at_entry"] == 0
    ok["V.inputs_in_order"] = [v % be.snarkjsp for v in state["pub_at_entry"]] == [v % be.snarkjsp for v in want]
    got = leaves(list(state["received"]))
    ok["V.body_receives_same_shape"] = same_shape(list(args), list(state["received"]))
    num_got = [y for x, y in zip(leaves(list(args)), got) if isinstance(x, (int, float)) and not isinstance(x, str)]
    def val(y):
        return y.value if hasattr(y, "value") else (y.lc.value if hasattr(y, "lc") else None)
    ok["V.body_receives_argument_values"] = len(num_got) == len(want) and all(val(y) == w for y, w in zip(num_got, want))
    ok["V.non_numeric_passed_through"] = all(y is x for x, y in zip(leaves(list(args)), got) if isinstance(x, str))
    new_pub = be.pubvals[state["pub_at_exit"]:]
    ok["T.outputs_count"] = len(new_pub) == len(state["secret"])
    ok["V.outputs_in_order"] = [v % be.snarkjsp for v in new_pub] == [val(o) % be.snarkjsp for o in state["secret"]]
    ok["V.returns_same_shape"] = same_shape(state["ret"], r)
    if ok["V.returns_same_shape"]:
        cl = []
        for o, i in zip(leaves(r), leaves(state["ret"])):
            if isinstance(i, fx.LinCombFxp): cl.append(isinstance(o, float) and o == i.lc.value / R)
            elif hasattr(i, "lc"): cl.append(isinstance(o, int) and o == val(i))
            else: cl.append(o is i or o == i)
        ok["V.returns_plain_values"] = all(cl)
    ok["T.nothing_else_public"] = len(be.pubvals) == len(numeric) + len(state["secret"])
    bad = []
    def ev(lc):
        return sum(c * (1 if k == 0 else (be.pubvals[k - 1] if k > 0 else be.privvals[-k - 1])) for k, c in lc.lc.items())
    for i, (A, B, C) in enumerate(be.constraints):
        if (ev(A) * ev(B) - ev(C)) % be.snarkjsp: bad.append(i)
    ok["C.sat_h"] = not bad
else:
    ok["R.raise"] = out["exception"]
out["clauses"] = ok
out["public_values"] = [str(v) for v in be.pubvals]
json.dump(out, open(sys.argv[3], "w"), indent=1, default=str)
'''


def _snark_replay(self, ob, cfg):
    """Runs the real runtime.snark around a recording body under CPython and re-evaluates the failed clause in the
    property's own terms (public values before / after the body, what the body received, what came back)."""
    import json, os, subprocess, tempfile, shutil
    from pyvc.replay import REPO
    model = ob.get("model") or {}
    tmp = tempfile.mkdtemp(prefix="pyvc_snark_")
    try:
        ints = [int(v) for k, v in sorted(((k, v) for k, v in model.items() if k.startswith("k_arg")), key=lambda kv: int(kv[0][5:].split("!")[0]))]
        ints += [3, 5, 9, 11, 13, 17]
        outs = [int(v) for k, v in sorted(((k, v) for k, v in model.items() if k.startswith("s_out")), key=lambda kv: int(kv[0][5:].split("!")[0]))]
        outs += [2, 1, 6, 4, 8, 10]
        req = dict(args=cfg["args"], ret=cfg["ret"], res=cfg["res"], kwargs=bool(cfg.get("kwargs")), ints=ints, outs=outs)
        json.dump(req, open(os.path.join(tmp, "req.json"), "w"))
        open(os.path.join(tmp, "run.py"), "w").write(_NATIVE)
        env = dict(os.environ)
        env.pop("PYSNARK_BACKEND", None)
        p = subprocess.run(["python3-vt", os.path.join(tmp, "run.py"), REPO, os.path.join(tmp, "req.json"), os.path.join(tmp, "out.json")],
                           cwd=tmp, env=env, stdout=subprocess.PIPE, stderr=subprocess.STDOUT, timeout=120)
        if not os.path.exists(os.path.join(tmp, "out.json")):
            return dict(confirmed=False, replay_error=p.stdout.decode(errors="replace")[-800:])
        out = json.load(open(os.path.join(tmp, "out.json")))
        clause = ob["name"].split("[")[0]
        confirmed = False
        if clause.startswith("R."):
            want_raise = bool(cfg.get("kwargs"))
            confirmed = (out["outcome"] == "raise") != want_raise
        elif clause.endswith("@raise"):
            confirmed = out["outcome"] == "raise" and len(out.get("public_values", [])) > 0
        elif clause in out.get("clauses", {}):
            confirmed = out["clauses"][clause] is False
        elif out["outcome"] == "raise" and not cfg.get("kwargs"):
            confirmed = True        # the wrapper failed on arguments it must accept
        out["confirmed"] = bool(confirmed)
        out["inputs"] = req
        return out
    finally:
        shutil.rmtree(tmp, ignore_errors=True)


Snark.native_replay = _snark_replay
