"""Contract for pysnark/snarkjsbackend.py:prove (C10): the iden3 .wtns / .r1cs files.

The files are ghost byte sequences (every byte a term).  The expected layout below is written
from the iden3 binary format description, not from the writer: a field of n bytes holding the
number X is *defined* by   sum_j byte_j * 256^j == X  and  0 <= byte_j < 256."""
import z3
from .common import *
from .backend_c import _Backend, SNARKJS, BN254_R
from pyvc.interp import SymBytes


def _flatten(records):
    out = []
    for r in records:
        if isinstance(r, (bytes, bytearray)):
            out.extend(z3.IntVal(b) for b in r)
        elif isinstance(r, SymBytes):
            out.extend(term(e) for e in r.elems)
        else:
            raise TypeError("unexpected file record %r" % (type(r),))
    return out


class _Reader:
    def __init__(self, bs):
        self.bs = bs
        self.pos = 0
        self.clauses = {}

    def take(self, n):
        chunk = self.bs[self.pos:self.pos + n]
        self.pos += n
        return chunk

    def num(self, n, what):
        ch = self.take(n)
        if len(ch) < n:
            self.clauses["V.layout[%s].present" % what] = False
            return z3.IntVal(0)
        self.clauses["V.layout[%s].bytes" % what] = And(*[And(b >= 0, b < 256) for b in ch])
        return z3.Sum([z3.IntVal(0)] + [b * (256 ** j) for j, b in enumerate(ch)])

    def expect(self, n, what, value):
        x = self.num(n, what)
        self.clauses["V.layout[%s]" % what] = x == term(value)
        return x

    def element(self, what, traced, p):
        """a 32-byte field element: canonical and congruent to the traced value"""
        x = self.num(32, what)
        self.clauses["V.canonical[%s]" % what] = x < p
        self.clauses["V.element[%s]" % what] = (x - term(traced)) % p == 0
        return x


@register
class SnarkjsProve(_Backend):
    name = SNARKJS + ":prove"
    # C18: "the proving step runs ... over the complete trace": for the default backend that step is this function
    vprops = ("C10", "C18")
    fprops = ("C10", "C18")
    # "the recorded witness" of C01 and C04 is, in the end, the witness file of the default backend: what a reported
    # value is congruent to must be what the prover is given
    # ... and the system a dishonest prover has to satisfy (C02) is the one in the circuit file: a coefficient written
    # differently from the one the library computed with ties a result to its operands through another relation
    interface_for = ("C01", "C02", "C04")

    def configs(self, tier):
        shapes = [
            dict(npub=0, npriv=0, cons=[]),
            dict(npub=1, npriv=1, cons=[[(0,), (-1,), (1,)]]),
            dict(npub=1, npriv=2, cons=[[(-1, 1, 0), (-2,), (1, 0)], [(), (), (-1, -2)]]),      # A, B, C with 3, 1, 2 terms: the counts are not interchangeable
            dict(npub=1, npriv=1, cons=[[(), (), ()], [(0,), (-1,), (1,)]]),                      # a row without a single term (0*0=0) is still a row
            dict(npub=2, npriv=0, cons=[[(), (), (1, 2, 0)]]),                                    # no private value at all
            dict(npub=1, npriv=1, cons=[[(), (), (1, -1, 0)], [(), (), (1, -1, 0)]]),             # two rows over the SAME variables (other coefficients): both are written
        ]
        if tier != "quick":
            shapes.append(dict(npub=2, npriv=3, cons=[[(-1, 1), (-2,), (-3, 2, 0)], [(0,), (-3,), (2,)], [(), (-1,), ()]]))
        out = [dict(shape=repr(s)) for s in shapes]
        # prove() called a second time (an explicit call, then the exit hook) after one more PUBLIC value was made: every
        # private wire has moved by one, and both files are written afresh from the current state
        out.append(dict(shape=repr(dict(npub=1, npriv=2, cons=[[(-1,), (-2,), (-1, 0)], [(0,), (-2,), (-1,)]])), earlier_prove=True))
        return out

    def setup(self, c, cfg):
        m = self.mod(c)
        sh = eval(cfg["shape"])
        self._sh = sh
        m.pubvals[:] = [SymInt(z3.Int("s_pub%d" % i)) for i in range(sh["npub"])]
        m.privvals[:] = [SymInt(z3.Int("s_priv%d" % i)) for i in range(sh["npriv"])]
        cons = []
        n = 0
        for con in sh["cons"]:
            row = []
            for keys in con:
                d = {}
                for k in keys:
                    d[k] = SymInt(z3.Int("s_coef%d" % n))
                    n += 1
                row.append(m.LinearCombination(d))
            cons.append(row)
        m.constraints[:] = cons
        if cfg.get("earlier_prove"):
            pub = list(m.pubvals)
            m.pubvals[:] = []                 # the state at the earlier call: no public value yet
            m.prove()
            m.pubvals[:] = pub
        self._pub, self._priv, self._cons = list(m.pubvals), list(m.privvals), cons
        # the working directory already holds the (longer) files of an earlier, larger computation
        c.w.fs["witness.wtns"] = [b"\x07" * 4096]
        c.w.fs["circuit.r1cs"] = [b"\x07" * 4096]
        return m.prove, (), {}

    def post(self, c, r):
        p = BN254_R
        w = c.w
        d = {}
        npub, npriv = len(self._pub), len(self._priv)
        nw = 1 + npub + npriv
        for fname in ("witness.wtns", "circuit.r1cs"):
            d["F.written_and_closed[%s]" % fname] = fname in w.fs and ("close", fname) in w.io_events
            # declared sizes = actual content: nothing of an earlier file survives behind what this run wrote
            d["F.replaces_earlier_file[%s]" % fname] = fname not in getattr(w, "stale_tail", {})
        if not all(d.values()):
            return d
        # ---- witness.wtns ------------------------------------------------------------
        R = _Reader(_flatten(w.fs["witness.wtns"]))
        R.expect(4, "wtns.magic", int.from_bytes(b"wtns", "little"))
        R.expect(4, "wtns.version", 2)
        R.expect(4, "wtns.nsections", 2)
        R.expect(4, "wtns.sec1.id", 1)
        R.expect(8, "wtns.sec1.len", 40)
        R.expect(4, "wtns.n8", 32)
        R.expect(32, "wtns.prime", p)
        R.expect(4, "wtns.nwitness", nw)
        R.expect(4, "wtns.sec2.id", 2)
        R.expect(8, "wtns.sec2.len", 32 * nw)
        R.element("wtns.w0=one", 1, p)
        for i, v in enumerate(self._pub):
            R.element("wtns.pub%d" % i, v, p)
        for i, v in enumerate(self._priv):
            R.element("wtns.priv%d" % i, v, p)
        R.clauses["V.layout[wtns.eof]"] = R.pos == len(R.bs)
        d.update(R.clauses)
        # ---- circuit.r1cs ------------------------------------------------------------
        R = _Reader(_flatten(w.fs["circuit.r1cs"]))
        ncons = len(self._cons)
        nterms = sum(len(L.lc) for con in self._cons for L in con)
        R.expect(4, "r1cs.magic", int.from_bytes(b"r1cs", "little"))
        R.expect(4, "r1cs.version", 1)
        R.expect(4, "r1cs.nsections", 3)
        R.expect(4, "r1cs.sec1.id", 1)
        R.expect(8, "r1cs.sec1.len", 64)
        R.expect(4, "r1cs.n8", 32)
        R.expect(32, "r1cs.prime", p)
        R.expect(4, "r1cs.nwires", nw)
        R.expect(4, "r1cs.npubout", npub)
        R.expect(4, "r1cs.npubin", 0)
        R.expect(4, "r1cs.nprvin", 0)
        R.num(8, "r1cs.nlabels")                 # informational, readers ignore it: not asserted
        R.expect(4, "r1cs.nconstraints", ncons)
        R.expect(4, "r1cs.sec2.id", 2)
        R.expect(8, "r1cs.sec2.len", 12 * ncons + 36 * nterms)
        for ci, con in enumerate(self._cons):
            for li, L in enumerate(con):
                R.expect(4, "r1cs.c%d.%s.nterms" % (ci, "ABC"[li]), len(L.lc))
                for k, cf in L.lc.items():
                    wid = k if k >= 0 else npub - k
                    R.expect(4, "r1cs.c%d.%s.wire(%d)" % (ci, "ABC"[li], k), wid)
                    R.element("r1cs.c%d.%s.coef(%d)" % (ci, "ABC"[li], k), cf, p)
        R.expect(4, "r1cs.sec3.id", 3)
        R.expect(8, "r1cs.sec3.len", 8 * nw)
        for i in range(nw):
            R.num(8, "r1cs.label%d" % i)
        R.clauses["V.layout[r1cs.eof]"] = R.pos == len(R.bs)
        d.update(R.clauses)
        d["F.traced_state_unchanged"] = (list(self.mod(c).pubvals) == self._pub and list(self.mod(c).privvals) == self._priv
                                         and self.mod(c).constraints == self._cons)
        return d
