"""Contract for pysnark/zkinterface/backend.py:prove (C11) -- call level, library assumed.

`flatbuffers` is not installed here, so neither the bytes nor a replay of them are within
reach.  What is decided: everything up to the library boundary, under an ASSUMED contract of
flatbuffers.Builder (GBuilder below: vectors are built by prepending in reverse order, tables
are slot -> value maps, FinishSizePrefixed/Output emit one size-prefixed message).  The REAL
generated accessor modules (Variables.py, CircuitHeader.py, ...) are interpreted against it;
the message trees are then decoded by the slot order of zkinterface.fbs (written here) and
compared with the traced state."""
import types
import z3
from .common import *
from .backend_c import _Backend, ZKIF, BN254_R, BLS12_381_R, CURVE25519_L, _stub_world
from pyvc.contract import free_syms

# union Message { CircuitHeader, ConstraintSystem, Witness, Command }  (NONE = 0)
MSG_HEADER, MSG_CONSTRAINTS, MSG_WITNESS = 1, 2, 3


class GVec:
    def __init__(self, elemsize, n):
        self.elemsize, self.n = elemsize, n
        self.items = []          # prepended: last element first


class GTable:
    def __init__(self, nslots):
        self.nslots = nslots
        self.slots = {}


class GMessage:
    def __init__(self, root, size_prefixed):
        self.root = root
        self.size_prefixed = size_prefixed


class GBuilder:
    """Assumed contract of flatbuffers.Builder (call level)."""

    def __init__(self, initial_size=0):
        self.open_vec = None
        self.open_tab = None
        self.finished = None
        self.errors = []

    def StartVector(self, elemsize, n, align):
        if self.open_vec is not None or self.open_tab is not None:
            self.errors.append("nested StartVector")
        self.open_vec = GVec(elemsize, n)
        return self.open_vec

    def _prepend(self, x, size):
        if self.open_vec is None:
            self.errors.append("Prepend outside a vector")
            return
        if self.open_vec.elemsize != size:
            self.errors.append("element size %d in a vector of %d-byte elements" % (size, self.open_vec.elemsize))
        self.open_vec.items.append(x)

    def PrependUint64(self, x):
        self._prepend(x, 8)

    def PrependByte(self, x):
        self._prepend(x, 1)

    def PrependUOffsetTRelative(self, off):
        self._prepend(off, 4)

    def EndVector(self, *a):
        v = self.open_vec
        self.open_vec = None
        if v is None:
            self.errors.append("EndVector without StartVector")
            return None
        if len(v.items) != v.n:
            self.errors.append("vector declared with %d elements, %d prepended" % (v.n, len(v.items)))
        v.elems = list(reversed(v.items))
        return v

    def StartObject(self, nslots):
        if self.open_vec is not None or self.open_tab is not None:
            self.errors.append("nested StartObject")
        self.open_tab = GTable(nslots)

    def _slot(self, slot, x):
        if self.open_tab is None:
            self.errors.append("slot written outside a table")
            return
        if not (0 <= slot < self.open_tab.nslots):
            self.errors.append("slot %d out of range" % slot)
        self.open_tab.slots[slot] = x

    def PrependUOffsetTRelativeSlot(self, slot, off, default):
        self._slot(slot, off)

    def PrependUint64Slot(self, slot, x, default):
        self._slot(slot, x)

    def PrependUint8Slot(self, slot, x, default):
        self._slot(slot, x)

    def EndObject(self):
        t = self.open_tab
        self.open_tab = None
        return t

    def FinishSizePrefixed(self, root, *a):
        self.finished = GMessage(root, True)

    def Finish(self, root, *a):
        self.finished = GMessage(root, False)

    def Output(self):
        m = self.finished
        m.errors = list(self.errors)
        return m


def _fb_world(w):
    _stub_world(w)
    fb = types.ModuleType("flatbuffers")
    fb.Builder = GBuilder
    nt = types.ModuleType("flatbuffers.number_types")
    nt.UOffsetTFlags = types.SimpleNamespace(py_type=lambda x: x)
    fb.number_types = nt
    fbc = types.ModuleType("flatbuffers.compat")
    fbc.import_numpy = lambda: None
    fb.compat = fbc
    w.module_overrides["flatbuffers"] = fb
    w.module_overrides["flatbuffers.compat"] = fbc
    w.module_overrides["flatbuffers.number_types"] = nt


def _le(bytes_terms, what, d):
    """value of a little-endian byte vector; adds the byte-range clause"""
    d["V.bytes[%s]" % what] = And(*[And(term(b) >= 0, term(b) < 256) for b in bytes_terms]) if bytes_terms else True
    return z3.Sum([z3.IntVal(0)] + [term(b) * (256 ** j) for j, b in enumerate(bytes_terms)])


def _variables(tab, BL, what, d):
    """decode a Variables table -> (ids, values) ; values as integers from BL-byte little-endian chunks"""
    ok = isinstance(tab, GTable) and tab.nslots == 3 and isinstance(tab.slots.get(0), GVec) and isinstance(tab.slots.get(1), GVec)
    d["V.shape[%s]" % what] = ok and tab.slots[0].elemsize == 8 and tab.slots[1].elemsize == 1 and 2 not in tab.slots
    if not d["V.shape[%s]" % what]:
        return None, None
    ids = tab.slots[0].elems
    raw = tab.slots[1].elems
    d["V.value_bytes_length[%s]" % what] = len(raw) == BL * len(ids)
    if len(raw) != BL * len(ids):
        return ids, None
    vals = [_le(raw[i * BL:(i + 1) * BL], "%s.%d" % (what, i), d) for i in range(len(ids))]
    return ids, vals


class _ZkProve(_Backend):
    module = ZKIF
    vprops = ("C11",)
    fprops = ("C11",)
    expected_modulus = BN254_R
    pre_import = ()

    @property
    def modules(self):
        return tuple(self.pre_import) + (self.module,)

    def world_setup(self, w):
        _fb_world(w)

    def configs(self, tier):
        shapes = [dict(npub=0, npriv=0, cons=[]),
                  dict(npub=1, npriv=2, cons=[[(-1,), (-2,), (1, 0)], [(-1,), (-2,), (0,)]]),     # second: C is a bare constant with any coefficient
                  dict(npub=2, npriv=0, cons=[[(), (), (1, 2, 0)]]),                                # public values only: no private variable at all
                  dict(npub=1, npriv=1, cons=[[(), (), ()], [(0,), (-1,), (1,)]]),                  # a row without a single term
                  dict(npub=1, npriv=1, cons=[[(), (), (1, -1, 0)], [(), (), (1, -1, 0)]]),         # two rows over the same variables
                  "dict(npub=0, npriv=1, cons=[[(), (), ()]] * 1029 + [[(-1,), (), ()]])"]          # more rows than any block size a writer may use (1024): none is lost
        if tier != "quick":
            shapes.append(dict(npub=2, npriv=2, cons=[[(-1, 1), (-2,), (2, 0)], [(), (0,), (-1,)]]))
        # (the 1030-row shape is discharged by the checks of the properties this writer belongs to, not again by every
        # check that merely leans on the backend interface)
        out = [dict(shape=s if isinstance(s, str) else repr(s), **({"own_only": True} if isinstance(s, str) else {})) for s in shapes]
        # CONCRETE coefficients at the byte boundaries of the element encoding (256^k, 256^k - 1, the largest element): what
        # a writer computes from a coefficient's size (a width, a length prefix) is exercised where such a size changes
        out += [dict(shape=repr(dict(npub=1, npriv=1, cons=[[(1, -1), (-1,), (0, 1)]])), coefs=k, own_only=True) for k in ("256**7", "256**8", "256**16-1", "p-1")]
        return out

    def setup(self, c, cfg):
        m = self.mod(c)
        sh = eval(cfg["shape"])
        m.pubvals[:] = [SymInt(z3.Int("s_pub%d" % i)) for i in range(sh["npub"])]
        m.privvals[:] = [SymInt(z3.Int("s_priv%d" % i)) for i in range(sh["npriv"])]
        cons, n = [], 0
        for con in sh["cons"]:
            row = []
            for keys in con:
                dd = {}
                for k in keys:
                    dd[k] = SymInt(z3.Int("s_coef%d" % n)) if "coefs" not in cfg else eval(cfg["coefs"], {"p": self.expected_modulus}) + (n % 2)
                    n += 1
                row.append(m.LinearCombination(dd))
            cons.append(row)
        m.constraints[:] = cons
        self._pub, self._priv, self._cons = list(m.pubvals), list(m.privvals), cons
        # the working directory already holds the (longer) files of an earlier, larger computation
        c.w.fs["computation.zkif"] = [b"\x07" * 4096]
        c.w.fs["circuit.zkif"] = [b"\x07" * 4096]
        return m.prove, (), {}

    # -- decoding by the schema's slot order ---------------------------------------------------
    def _root(self, msg, what, d):
        ok = isinstance(msg, GMessage) and msg.size_prefixed and isinstance(msg.root, GTable) and msg.root.nslots == 2
        d["V.message[%s].size_prefixed_root" % what] = ok
        d["V.message[%s].builder_protocol" % what] = ok and not msg.errors
        if not ok:
            return None, None
        return msg.root.slots.get(0), msg.root.slots.get(1)

    def _check_header(self, msg, what, d, p, BL):
        typ, tab = self._root(msg, what, d)
        d["V.%s.type" % what] = typ == MSG_HEADER
        if not isinstance(tab, GTable):
            d["V.%s.table" % what] = False
            return
        d["V.%s.table" % what] = tab.nslots == 4 and 3 not in tab.slots
        ids, vals = _variables(tab.slots.get(0), BL, what + ".instance", d)
        npub, npriv = len(self._pub), len(self._priv)
        d["V.%s.instance_ids" % what] = ids == list(range(1, npub + 1))
        if vals is not None:
            d["V.%s.instance_values" % what] = And(*[And(v < p, (v - term(t)) % p == 0) for v, t in zip(vals, self._pub)]) if vals else True
        d["V.%s.free_variable_id" % what] = tab.slots.get(1) == npub + npriv + 1
        fm = tab.slots.get(2)
        d["V.%s.field_maximum" % what] = isinstance(fm, GVec) and fm.elemsize == 1 and len(fm.elems) == BL and \
            sum(int(b) * 256 ** j for j, b in enumerate(fm.elems)) == p - 1

    def _check_witness(self, msg, what, d, p, BL):
        typ, tab = self._root(msg, what, d)
        d["V.%s.type" % what] = typ == MSG_WITNESS
        if not isinstance(tab, GTable):
            d["V.%s.table" % what] = False
            return
        ids, vals = _variables(tab.slots.get(0), BL, what + ".assigned", d)
        npub, npriv = len(self._pub), len(self._priv)
        d["V.%s.assigned_ids" % what] = ids == list(range(npub + 1, npub + npriv + 1))
        if vals is not None:
            d["V.%s.assigned_values" % what] = And(*[And(v < p, (v - term(t)) % p == 0) for v, t in zip(vals, self._priv)]) if vals else True

    def _check_constraints(self, msg, what, d, p, BL):
        typ, tab = self._root(msg, what, d)
        d["V.%s.type" % what] = typ == MSG_CONSTRAINTS
        if not isinstance(tab, GTable):
            d["V.%s.table" % what] = False
            return
        vec = tab.slots.get(0)
        ok = isinstance(vec, GVec) and vec.elemsize == 4 and len(vec.elems) == len(self._cons)
        d["V.%s.count" % what] = ok
        if not ok:
            return
        npub = len(self._pub)
        for ci, (bc, con) in enumerate(zip(vec.elems, self._cons)):
            okc = isinstance(bc, GTable) and bc.nslots == 3
            d["V.%s.c%d.table" % (what, ci)] = okc
            if not okc:
                continue
            for li, L in enumerate(con):
                nm = "%s.c%d.%s" % (what, ci, "ABC"[li])
                ids, vals = _variables(bc.slots.get(li), BL, nm, d)
                want_ids = [k if k >= 0 else npub - k for k in L.lc]
                d["V.%s.ids" % nm] = ids == want_ids
                if vals is not None:
                    d["V.%s.coefficients" % nm] = And(*[And(v < p, (v - term(cf)) % p == 0) for v, cf in zip(vals, L.lc.values())]) if vals else True

    def post(self, c, r):
        w = c.w
        m = self.mod(c)
        p = self.expected_modulus
        BL = (p.bit_length() + 7) // 8
        d = {"V.modulus": m.modulus == p and m.get_modulus() == p, "V.BL": m.BL == BL}
        for fname in ("computation.zkif", "circuit.zkif"):
            d["F.written_and_closed[%s]" % fname] = fname in w.fs and ("close", fname) in w.io_events
            # the file is exactly this run's messages: nothing of an earlier file survives behind them
            d["F.replaces_earlier_file[%s]" % fname] = fname not in getattr(w, "stale_tail", {})
        if not all(d.values()):
            return d
        comp, circ = w.fs["computation.zkif"], w.fs["circuit.zkif"]
        d["V.computation.messages"] = len(comp) == 3 and all(isinstance(x, GMessage) for x in comp)
        d["V.circuit.messages"] = len(circ) == 2 and all(isinstance(x, GMessage) for x in circ)
        if not (d["V.computation.messages"] and d["V.circuit.messages"]):
            return d
        self._check_header(comp[0], "computation.header", d, p, BL)
        self._check_witness(comp[1], "computation.witness", d, p, BL)
        self._check_constraints(comp[2], "computation.constraints", d, p, BL)
        self._check_header(circ[0], "circuit.header", d, p, BL)
        self._check_constraints(circ[1], "circuit.constraints", d, p, BL)
        # the verifier's file: no witness message, and nothing in it depends on a private value
        d["V.circuit.no_witness_message"] = all(self._root(x, "circuit.any", {})[0] != MSG_WITNESS for x in circ)
        syms = set()
        for x in circ:
            syms |= _tree_syms(x.root)
        d["V.circuit.independent_of_private_values"] = not any(s.startswith("s_priv") for s in syms)
        d["F.traced_state_unchanged"] = list(m.pubvals) == self._pub and list(m.privvals) == self._priv and m.constraints == self._cons
        return d


def _tree_syms(x):
    if isinstance(x, GTable):
        out = set()
        for v in x.slots.values():
            out |= _tree_syms(v)
        return out
    if isinstance(x, GVec):
        out = set()
        for v in x.elems:
            out |= _tree_syms(v)
        return out
    if isinstance(x, SymInt):
        return free_syms(x.t)
    return set()


@register
class ZkProveBN(_ZkProve):
    """generic zkinterface backend (BN254 scalar field)"""
    name = ZKIF + ":prove"


@register
class ZkProveBellman(_ZkProve):
    """zkifbellman: BLS12-381 scalar field"""
    name = ZKIF + ":prove#bellman"
    # C19: "the reported backend name identifies ... the field it works in": the files this backend writes announce
    # and use the field of the NAMED configuration (the derived backends are the generic module after set_modulus)
    vprops = ("C13", "C11", "C19")
    fprops = ("C13", "C11", "C19")
    pre_import = ("pysnark.zkinterface.backendbellman",)
    expected_modulus = BLS12_381_R


@register
class ZkProveBulletproofs(_ZkProve):
    """zkifbulletproofs: Curve25519 group order"""
    name = ZKIF + ":prove#bulletproofs"
    # C19: "the reported backend name identifies ... the field it works in": the files this backend writes announce
    # and use the field of the NAMED configuration (the derived backends are the generic module after set_modulus)
    vprops = ("C13", "C11", "C19")
    fprops = ("C13", "C11", "C19")
    pre_import = ("pysnark.zkinterface.backendbulletproofs",)
    expected_modulus = CURVE25519_L


def _zkif_replay(self, ob, cfg):
    """CPython runs the real zkinterface backend's prove() on the countermodel's traced state, with the ASSUMED
    Builder contract standing in for the absent flatbuffers library; the clause is re-evaluated on the messages the
    real code handed to file.write().  (The assumption stays: this confirms the code side, not the bytes.)"""
    from .qaptools_c import _qap_replay
    res = _qap_replay(self, ob, cfg, kind="zkif")
    res["note"] = "flatbuffers.Builder replaced by the assumed call-level contract (library absent in this sandbox)"
    return res


_ZkProve.native_replay = _zkif_replay
