import Mathlib
open Finset

theorem L1 (p : ℕ) [Fact p.Prime] (a b : ZMod p) (h : a * b = 0) : a = 0 ∨ b = 0 :=
  mul_eq_zero.mp h

theorem L2 (x : ℤ) (n : ℕ) :
    x = 2 ^ n * (x / 2 ^ n) + ∑ i ∈ range n, 2 ^ i * ((x / 2 ^ i) % 2) := by
  induction n with
  | zero => simp
  | succ n ih =>
    rw [sum_range_succ]
    have h1 : x / 2 ^ (n + 1) = (x / 2 ^ n) / 2 := by
      rw [pow_succ, Int.ediv_ediv_of_nonneg (by positivity)]
    have h2 : (x / 2 ^ n) = 2 * ((x / 2 ^ n) / 2) + (x / 2 ^ n) % 2 :=
      (Int.mul_ediv_add_emod (x / 2 ^ n) 2).symm
    rw [h1]
    have e : (2:ℤ) ^ (n + 1) * (x / 2 ^ n / 2)
          + (∑ i ∈ range n, 2 ^ i * (x / 2 ^ i % 2) + 2 ^ n * (x / 2 ^ n % 2))
        = 2 ^ n * (2 * ((x / 2 ^ n) / 2) + (x / 2 ^ n) % 2)
          + ∑ i ∈ range n, 2 ^ i * (x / 2 ^ i % 2) := by ring
    rw [e, ← h2]; exact ih

theorem L3_append (xs ys : List ℤ) : (xs ++ ys).sum = xs.sum + ys.sum := List.sum_append

theorem L3_finsupp {ι : Type} (a b : ι →₀ ℤ) (w : ι → ℤ) :
    (a + b).sum (fun k c => c * w k)
      = a.sum (fun k c => c * w k) + b.sum (fun k c => c * w k) := by
  apply Finsupp.sum_add_index' <;> intros <;> ring

theorem fermat (p : ℕ) [Fact p.Prime] (a : ZMod p) (h : a ≠ 0) : a * a ^ (p - 2) = 1 := by
  have hp : 2 ≤ p := (Fact.out : p.Prime).two_le
  have := ZMod.pow_card_sub_one_eq_one h
  calc a * a ^ (p - 2) = a ^ (p - 2 + 1) := by ring
    _ = a ^ (p - 1) := by congr 1; omega
    _ = 1 := this

-- lemma instances added during the build (pyvc/sym.py: fmul_assoc, fmul_cancel, idiv_scale)
theorem fmul_assoc (p : ℕ) (a b c : ZMod p) : a * b * c = a * (b * c) := mul_assoc a b c

theorem fmul_cancel (p : ℕ) [Fact p.Prime] (a b₁ b₂ : ZMod p) (ha : a ≠ 0) (h : a * b₁ = a * b₂) : b₁ = b₂ :=
  mul_left_cancel₀ ha h

theorem idiv_scale (a b R : ℤ) (hR : 0 < R) : (a * R) / (b * R) = a / b :=
  Int.mul_ediv_mul_of_pos_left a b hR
