"""pyvc.contract -- sidecar contracts on the real functions, and their two uses:

  * as the *obligation* of the function they are attached to (verify.py runs the
    real body and proves every clause on every path);
  * as the *summary* of that function at every call site in other functions
    (`stub`): the caller proves `pre`, then sees only `raises` / `post`.

A contract never contains code from /repo; it names a function by
"module:Qualified.name" and the engine binds it to whatever body /repo has now.
"""
import z3

from . import sym, ghost as gh
from .sym import SymInt, SymBool, term, formula, lift, liftb, cur, Z

REGISTRY = {}


def register(cls):
    inst = cls()
    REGISTRY[inst.name] = inst
    return cls


class Ctx:
    """What contract clauses can talk about (thin view on live state)."""

    def __init__(self, world, ghost):
        self.w = world
        self.g = ghost
        self.p = ghost.p
        self.entry = None
        self.callsite_obligations = []
        self.stub_calls = []
        self.cfg = {}

    # live runtime state
    @property
    def rt(self):
        return self.w.modules["pysnark.runtime"]

    @property
    def ie(self):
        return bool(self.rt._ignore_errors)

    @property
    def guard(self):
        return self.rt.guard

    @property
    def bitlength(self):
        return self.rt.bitlength

    def is_guard(self):
        """z3 Bool: guard is None or guard.value == 1 (runtime.is_guard)."""
        g = self.rt.guard
        if g is None:
            return z3.BoolVal(True)
        return z3.simplify(term(g.value) == 1)

    def snapshot(self):
        if "pysnark.runtime" not in self.w.modules:
            return dict(ie=False, guard=None, ONE=None, num_constraints=0, bitlength=0, dummy=True)
        rt = self.rt
        return dict(ie=rt._ignore_errors, guard=rt.guard, ONE=rt.LinComb.ONE,
                    num_constraints=rt.num_constraints, bitlength=rt.bitlength)

    # classes of the interpreted world
    @property
    def LinComb(self):
        return self.rt.LinComb

    @property
    def LinCombBool(self):
        return self.w.modules["pysnark.boolean"].LinCombBool

    @property
    def LinCombFxp(self):
        return self.w.modules["pysnark.fixedpoint"].LinCombFxp

    # evaluation helpers
    def v(self, x):
        """Honest Python-visible value of a LinComb / LinCombBool / LinCombFxp / int."""
        if isinstance(x, int):
            return term(x)
        if hasattr(x, "value"):
            return term(x.value)
        return term(x.lc.value)

    def lc(self, x):
        l = x.lc
        while not isinstance(l, gh.GLC):
            l = l.lc
        return l

    def eva(self, x):
        return self.g.ev_a(self.lc(x))

    def evh(self, x):
        return self.g.ev_h(self.lc(x))

    def inv(self, x):
        """Representation invariant: value == wire expression on the honest witness (mod p)."""
        return z3.simplify((self.v(x) - self.evh(x)) % self.p == 0)

    def tied(self, x):
        """The adversarial evaluation of x agrees with its honest value."""
        return z3.simplify(self.eva(x) == self.v(x) % self.p)

    # fresh objects for stubs
    def fresh_int(self, name):
        return SymInt(cur().fresh(name))

    def fresh_lincomb(self, value, name="r"):
        """A LinComb whose wire expression is an opaque result wire with honest value `value`."""
        lc, var = self.g.result_wire(value, name)
        return self.mk_lincomb(value, lc)

    def _extra_fields(self, kind):
        """Fields the real constructor sets besides the ones the contracts talk about (value, lc): taken from a
        template object built ONCE by the real constructor on concrete arguments, so that a field added to
        __init__ (a name, a cache slot initialised to None) is present on every operand the contracts build."""
        cache = self.__dict__.setdefault("_templates", {})
        if kind in cache:
            return cache[kind]
        extra = {}
        w = self.w
        saved = w.use_contracts
        w.use_contracts = False
        n_trace = len(self.g.trace)
        try:
            base = self.LinComb(0, self.g.zero()) if hasattr(self.g, "zero") else None
            if kind == "LinComb":
                t = base
            elif kind == "LinCombBool":
                t = self.LinCombBool(base, False)
            else:
                t = self.LinCombFxp(base, False)
            if len(self.g.trace) == n_trace:
                extra = {k: v for k, v in vars(t).items() if k not in ("value", "lc")
                         and isinstance(v, (int, str, bool, float, type(None), tuple, frozenset))}
        except BaseException:  # noqa  the constructor refused the template arguments: no extra fields known
            del self.g.trace[n_trace:]
            extra = {}
        finally:
            w.use_contracts = saved
        cache[kind] = extra
        return extra

    def mk_lincomb(self, value, lc):
        """Allocate a LinComb without running any code of /repo on symbolic values."""
        o = object.__new__(self.LinComb)
        o.__dict__.update(self._extra_fields("LinComb"))
        o.value = value
        o.lc = lc
        return o

    def mk_bool(self, lincomb):
        o = object.__new__(self.LinCombBool)
        o.__dict__.update(self._extra_fields("LinCombBool"))
        o.lc = lincomb
        return o

    def mk_fxp(self, lincomb):
        o = object.__new__(self.LinCombFxp)
        o.__dict__.update(self._extra_fields("LinCombFxp"))
        o.lc = lincomb
        return o

    def fresh_bool_lc(self, value, name="b"):
        return self.mk_bool(self.fresh_lincomb(value, name))

    def operand(self, name, kind="priv", tie=True):
        """A secret operand LinComb with a fresh symbolic value."""
        x = SymInt(z3.Int("s_" + name))
        return self.mk_lincomb(x, self.g.operand(x, name, tie=tie))

    def operand_bool(self, name, tie=True):
        x = SymInt(z3.Int("s_" + name))
        cur().assume(z3.Or(x.t == 0, x.t == 1))
        return self.mk_bool(self.mk_lincomb(x, self.g.operand(x, name, tie=tie)))

    def client(self, src, **bindings):
        """A client program over the API, given as source text and run through the interpreter
        (so that frames, line numbers and locals are those of an ordinary user function)."""
        import ast, types
        from .interp import Interp, Frame
        mod = types.ModuleType("pyvc_client")
        mod.__dict__.update(bindings)
        tree = ast.parse(src, filename="<client>")
        Interp(self.w).exec_block(tree.body, Frame("module", mod, None, set()))
        return mod.prog

    def public_int(self, name):
        k = SymInt(z3.Int("k_" + name))
        self.g.publics.append(k.t)
        return k


def And(*a):
    a = [formula(x) for x in a]
    return z3.And(*a) if a else z3.BoolVal(True)


def Or(*a):
    a = [formula(x) for x in a]
    return z3.Or(*a) if a else z3.BoolVal(False)


def Not(a):
    return z3.Not(formula(a))


def Implies(a, b):
    return z3.Implies(formula(a), formula(b))


def If(c, a, b):
    return z3.If(formula(c), term(a), term(b))


def Eq(a, b):
    return term(a) == term(b)


def modeq(a, b, p):
    return (term(a) - term(b)) % p == 0


class Contract:
    name = None
    fn_path = None          # attribute path inside the module, e.g. "LinComb.check_zero"
    modules = ("pysnark.runtime", "pysnark.boolean")
    result_kind = None      # None | 'lincomb' | 'bool' | custom via result()
    covers_normal = True    # some path must return normally in every config
    witness_args = ()       # positions of arguments that are witness values (do not shape the circuit)
    # which property each clause group of this contract counts for (pyvc/props.py)
    cprops = ("C01",)
    sprops = ("C02",)
    eprops = ("C03",)
    vprops = ("C05",)
    tprops = ("C06",)
    fprops = ()             # "F." clauses: frame / global-state clauses
    guard_relevant = True
    inline = False

    layer = "gadget"        # "gadget": verified against the ghost backend; otherwise the real modules are loaded
    raises_unspecified = False   # True: any exception is acceptable ("... or the operation raises"); no R clauses
    probe = False           # True: setup() returns a harness closure over several real functions (no single target)

    def world_setup(self, w):
        """Module overrides / environment for non-gadget layers."""

    @property
    def target(self):
        """The function whose body is verified ("name#variant" contracts share a function)."""
        return self.name.split("#")[0]

    # ---- to be overridden ---------------------------------------------------
    def configs(self, tier):
        return [{}]

    def setup(self, c, cfg):
        """Build operands; return (callable, args, kwargs)."""
        raise NotImplementedError

    def pre(self, c, *args, **kw):
        return []

    def raises(self, c, *args, **kw):
        return []

    def result(self, c, *args, **kw):
        return None

    def post(self, c, r, *args, **kw):
        return {}

    def post_exc(self, c, e, *args, **kw):
        """Clauses that must hold when the function exits by raising `e`."""
        return {}

    def key(self, c, *args, **kw):
        return ()

    def counts(self, c, *args, **kw):
        return None

    def effects(self, c, r, *args, **kw):
        """Frame: side effects on runtime globals performed by a call (stub use)."""
        n = self.counts(c, *args, **kw)
        if n is not None:
            c.rt.num_constraints += n[2]

    # ---- use as callee summary ---------------------------------------------------
    def use_stub(self, c, *args, **kw):
        """False: execute the real body at this call site (e.g. constant operand: no events)."""
        return True

    def stub(self, world, ifn, args, kwargs):
        c = world.ctx
        P = cur()
        c.stub_calls.append(self.name)
        for i, f in enumerate(self.pre(c, *args, **kwargs)):
            f = formula(f)
            c.callsite_obligations.append(("pre[%d]@%s" % (i, self.name), list(P.hyps()), f))
            P.assume(f)
        # a RECURSIVE call of the function under verification may only rely on its own contract if a measure
        # decreases (total correctness): otherwise "raises ValueError for k < 0" would be assumed of a call that in
        # fact never returns
        em = getattr(c, "entry_measure", None)
        if em is not None and getattr(world, "target", None) == self.target and hasattr(self, "measure"):
            mn = term(self.measure(c, *args, **kwargs))
            f = z3.And(mn >= 0, mn < term(em))
            c.callsite_obligations.append(("pre[decreases]@%s" % self.name, list(P.hyps()), f))
        for exc, cond in self.raises(c, *args, **kwargs):
            if P.decide(formula(cond)):
                raise exc("raised by contract of " + self.name)
        checked = c.g.checked()
        world.use_contracts = False
        try:
            key = (self.key(c, *args, **kwargs), self._opnd_sig(c, args, kwargs))
            counts = self.counts(c, *args, **kwargs)
            n_vars = len(c.g.vars)
            r = self.result(c, *args, **kwargs)
            result_vars = c.g.vars[n_vars:]
            g = P.fresh("sat_" + self.name.rsplit(".", 1)[-1], "bool")
            for nm, f in self.post(c, r, *args, **kwargs).items():
                if nm.startswith("canary"):
                    continue
                f = formula(f)
                if nm.startswith(("S.", "E.")):
                    # what the callee proves: all its triples hold adversarially AND (unless the clause is declared
                    # untied) its operands carry their honest values  ==>  clause
                    if self.is_untied(nm):
                        P.assume(z3.Implies(g, f))
                    else:
                        P.assume(z3.Implies(z3.And(g, *self.site_ties(c, args, kwargs)), f))
                else:
                    P.assume(f)
            grp = gh.Grp(self.name, key, g, counts, checked)
            grp.result_vars = result_vars
            grp.witness_like = bool(self.witness_args)
            c.g.trace.append(grp)
            self.effects(c, r, *args, **kwargs)
        finally:
            world.use_contracts = True
        return r

    # S/E clauses are proved for ARBITRARY input wires: the only facts about the adversarial assignment are the
    # emitted triples.  A clause that needs an operand to carry its honest value says so itself (c.tied(x) in its
    # hypothesis), so what a caller may assume at a call site is literally what was proved.  `needs_ties` lists
    # clauses that instead get the ties of all operands as a blanket hypothesis (and, at call sites, the ties
    # of all arguments).
    needs_ties = ()

    def is_untied(self, clause):
        return not (clause in self.needs_ties or clause.split("[")[0] in self.needs_ties)

    def site_ties(self, c, args, kwargs):
        """tied(o) for every secret object the call can reach: its arguments and the current guard."""
        objs = []
        _secrets(list(args) + list(kwargs.values()), objs)
        rt = c.rt if "pysnark.runtime" in c.w.modules else None
        if rt is not None and rt.guard is not None:
            objs.append(rt.guard)
        out = []
        seen = set()
        for o in objs:
            if id(o) in seen:
                continue
            seen.add(id(o))
            try:
                t = c.tied(o)
            except Exception:
                continue
            if not z3.is_true(t):
                out.append(t)
        return out

    def _opnd_sig(self, c, args, kwargs):
        out = []
        for i, a in enumerate(list(args) + [kwargs[k] for k in sorted(kwargs)]):
            if i in self.witness_args:
                out.append(("witness",))        # a value handed to the backend, not part of the circuit
            else:
                out.append(_struct_sig(c, a))
        return tuple(out)


def _secrets(x, out, depth=0):
    if depth > 4 or isinstance(x, (int, str, float, bytes, type(None))):
        return
    if isinstance(x, (list, tuple)):
        for y in x:
            _secrets(y, out, depth + 1)
    elif isinstance(x, dict):
        for y in x.values():
            _secrets(y, out, depth + 1)
    else:
        try:
            d = object.__getattribute__(x, "__dict__")
        except Exception:
            return
        if isinstance(d.get("arr"), list):
            _secrets(d["arr"], out, depth + 1)
        elif d.get("lc") is not None:
            out.append(x)


def _struct_sig(c, a):
    if isinstance(a, (list, tuple)):
        return tuple(_struct_sig(c, x) for x in a)
    if isinstance(a, SymInt):
        return ("int", z3.simplify(a.t).sexpr() if _is_public(a.t) else "secret")
    if isinstance(a, (int, str, type(None), bool, float)):
        return ("k", a)
    if hasattr(a, "lc"):
        try:
            return (type(a).__name__, c.g.lc_sig(c.lc(a)))
        except Exception:
            return (type(a).__name__,)
    if callable(a):
        return ("fn",)
    return (type(a).__name__,)


def free_syms(t):
    out = set()
    seen = set()
    stack = [t]
    while stack:
        e = stack.pop()
        if e.get_id() in seen:
            continue
        seen.add(e.get_id())
        if z3.is_const(e) and e.decl().kind() == z3.Z3_OP_UNINTERPRETED:
            out.add(e.decl().name())
        stack.extend(e.children())
    return out


def _is_public(t):
    return all(not s.startswith("s_") and not s.startswith("a_") for s in free_syms(t))
