"""pyvc.evalz3 -- exact evaluation of z3 terms under a concrete assignment.

Integer arithmetic with Python ints (z3's div/mod semantics for a positive or negative
numeral divisor), booleans, if-then-else, and the uninterpreted products / quotients of
pyvc.sym computed by TRUE arithmetic:
    imul(a,b) = a*b      fmul(a,b) = a*b mod p      idiv/imod = Python floor division / modulo
Constants are looked up in `env` (name -> int/bool); a constant that is missing and has a
definition (pyvc.sym Path.defs) is computed from it on demand."""
import z3

K = z3


class NotConcrete(Exception):
    pass


class Evaluator:
    def __init__(self, env, p=None, defs=None):
        self.env = dict(env)
        self.p = p
        self.defs = defs or {}
        self.memo = {}

    def const(self, e):
        n = e.decl().name()
        if n in self.env:
            return self.env[n]
        d = self.defs.get(n)
        if d is not None:
            self.env[n] = None          # cycle guard
            v = d(self.ev)
            self.env[n] = v
            return v
        if n in self.defs:              # defined symbol without a rule (e.g. a callee's `sat` flag): any value
            v = True if z3.is_bool(e) else 0
            self.env[n] = v
            return v
        raise NotConcrete(n)

    def ev(self, e):
        k = e.get_id()
        if k in self.memo:
            return self.memo[k]
        v = self._ev(e)
        self.memo[k] = v
        return v

    def _ev(self, e):
        if z3.is_int_value(e):
            return e.as_long()
        if z3.is_true(e):
            return True
        if z3.is_false(e):
            return False
        if not z3.is_app(e):
            raise NotConcrete(str(e)[:60])
        d = e.decl()
        kind = d.kind()
        ch = e.children()
        if kind == z3.Z3_OP_UNINTERPRETED:
            if not ch:
                v = self.const(e)
                if v is None:
                    raise NotConcrete("cyclic definition of " + d.name())
                return v
            name = d.name()
            a = [self.ev(c) for c in ch]
            if name == "imul":
                return a[0] * a[1]
            if name == "fmul":
                return (a[0] * a[1]) % self.p
            if name == "idiv":
                if a[1] == 0:
                    raise NotConcrete("idiv by zero")
                return a[0] // a[1]
            if name == "imod":
                if a[1] == 0:
                    raise NotConcrete("imod by zero")
                return a[0] % a[1]
            raise NotConcrete("uninterpreted " + name)
        if kind == z3.Z3_OP_ADD:
            return sum(self.ev(c) for c in ch)
        if kind == z3.Z3_OP_SUB:
            r = self.ev(ch[0])
            for c in ch[1:]:
                r -= self.ev(c)
            return r
        if kind == z3.Z3_OP_UMINUS:
            return -self.ev(ch[0])
        if kind == z3.Z3_OP_MUL:
            r = 1
            for c in ch:
                r *= self.ev(c)
            return r
        if kind in (z3.Z3_OP_IDIV, z3.Z3_OP_DIV):
            a, b = self.ev(ch[0]), self.ev(ch[1])
            if b == 0:
                raise NotConcrete("div by zero")
            # SMT-LIB integer division: the remainder is non-negative
            q = a // b
            if a - b * q < 0:
                q += 1
            return q
        if kind == z3.Z3_OP_MOD:
            a, b = self.ev(ch[0]), self.ev(ch[1])
            if b == 0:
                raise NotConcrete("mod by zero")
            r = a % abs(b)
            return r
        if kind == z3.Z3_OP_ITE:
            return self.ev(ch[1]) if self.ev(ch[0]) else self.ev(ch[2])
        if kind == z3.Z3_OP_EQ:
            return self.ev(ch[0]) == self.ev(ch[1])
        if kind == z3.Z3_OP_DISTINCT:
            vs = [self.ev(c) for c in ch]
            return len(set(vs)) == len(vs)
        if kind == z3.Z3_OP_LE:
            return self.ev(ch[0]) <= self.ev(ch[1])
        if kind == z3.Z3_OP_LT:
            return self.ev(ch[0]) < self.ev(ch[1])
        if kind == z3.Z3_OP_GE:
            return self.ev(ch[0]) >= self.ev(ch[1])
        if kind == z3.Z3_OP_GT:
            return self.ev(ch[0]) > self.ev(ch[1])
        if kind == z3.Z3_OP_AND:
            return all(self.ev(c) for c in ch)
        if kind == z3.Z3_OP_OR:
            return any(self.ev(c) for c in ch)
        if kind == z3.Z3_OP_NOT:
            return not self.ev(ch[0])
        if kind == z3.Z3_OP_IMPLIES:
            return (not self.ev(ch[0])) or self.ev(ch[1])
        if kind == z3.Z3_OP_XOR:
            return bool(self.ev(ch[0])) != bool(self.ev(ch[1]))
        raise NotConcrete("operator %s" % d.name())
