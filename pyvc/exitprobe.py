"""pyvc.exitprobe -- validation of the assumed interpreter contract of C18.

One subprocess of the repository's own interpreter per (termination mode, position): a small
traced script is terminated in the given way; afterwards the scratch directory is inspected.
Expected (the property): artefacts (both snarkjs files, complete) iff the script ended normally
or with exit status 0; with autoprove off nothing is produced and nothing fails."""
import json
import os
import shutil
import subprocess
import tempfile
from concurrent.futures import ThreadPoolExecutor

REPO = os.environ.get("PYVC_REPO", "/repo")
PY = "/venv/bin/python" if os.path.exists("/venv/bin/python") else "python3"

MODES = [
    # (label, statement, succeeds?)
    ("fall off the end", "pass", True),
    ("sys.exit()", "import sys; sys.exit()", True),
    ("sys.exit(0)", "import sys; sys.exit(0)", True),
    ("sys.exit(None)", "import sys; sys.exit(None)", True),
    ("sys.exit(1)", "import sys; sys.exit(1)", False),
    ("sys.exit(3)", "import sys; sys.exit(3)", False),
    ("sys.exit('msg')", "import sys; sys.exit('fatal')", False),
    ("uncaught ValueError", "raise ValueError('boom')", False),
    ("uncaught KeyboardInterrupt", "raise KeyboardInterrupt()", False),
    ("raise SystemExit(0)", "raise SystemExit(0)", True),
    ("raise SystemExit(1)", "raise SystemExit(1)", False),
    ("builtin exit(0)", "exit(0)", True),
    ("builtin exit(1)", "exit(1)", False),
    ("from sys import exit; exit(1)", "from sys import exit as e2; e2(1)", False),
    # the termination starts inside a guarded function (a live region)
    ("sys.exit(3) in a guarded function", "rt.guarded(PrivVal(1))(lambda: __import__('sys').exit(3))()", False),
    ("sys.exit(0) in a guarded function", "rt.guarded(PrivVal(1))(lambda: __import__('sys').exit(0))()", True),
    ("uncaught ValueError in a guarded function", "rt.guarded(PrivVal(1))(lambda: [].remove(1))()", False),
]
POSITIONS = ("before-output", "after-output")

SCRIPT = '''
import pysnark.runtime as rt
from pysnark.runtime import PrivVal
{auto}
x = PrivVal(3)
y = x * x
if {pos!r} == "before-output":
    {stmt}
y.val()
if {pos!r} == "after-output":
    {stmt}
'''


def run_one(label, stmt, pos, autoprove=True):
    tmp = tempfile.mkdtemp(prefix="pyvc_exit_")
    try:
        src = SCRIPT.format(stmt=stmt, pos=pos, auto="" if autoprove else "rt.autoprove = False")
        open(os.path.join(tmp, "script.py"), "w").write(src)
        env = dict(os.environ, PYTHONPATH=REPO, PYSNARK_BACKEND="snarkjs")
        pr = subprocess.run([PY, "script.py"], cwd=tmp, capture_output=True, text=True, timeout=60, env=env)
        files = {f: os.path.getsize(os.path.join(tmp, f)) for f in ("witness.wtns", "circuit.r1cs") if os.path.exists(os.path.join(tmp, f))}
        return dict(mode=label, position=pos, autoprove=autoprove, rc=pr.returncode, files=files,
                    skipped_msg="skipping proof generation" in pr.stderr,
                    traceback="Traceback" in pr.stderr, stderr_tail=pr.stderr[-300:])
    finally:
        shutil.rmtree(tmp, ignore_errors=True)


def probes(tier="quick"):
    jobs = []
    for label, stmt, ok in MODES:
        for pos in POSITIONS:
            jobs.append((label, stmt, pos, True, ok))
    jobs.append(("fall off the end", "pass", "after-output", False, None))
    jobs.append(("sys.exit(0)", "import sys; sys.exit(0)", "after-output", False, None))
    jobs.append(("uncaught ValueError", "raise ValueError('boom')", "after-output", False, None))
    with ThreadPoolExecutor(8) as ex:
        res = list(ex.map(lambda j: (j, run_one(j[0], j[1], j[2], j[3])), jobs))
    # reference sizes: the complete trace of a normal run
    ref = next(r for j, r in res if j[0] == "fall off the end" and j[2] == "after-output" and j[3])
    out = []
    for (label, stmt, pos, auto, ok), r in res:
        if not auto:
            good = (not r["files"]) and not (r["traceback"] and "AttributeError" in r["stderr_tail"]) and \
                   (r["rc"] == 0 or label.startswith("uncaught"))
            nm = "X.autoprove_off[%s]" % label
            detail = "files=%r rc=%d stderr=%r" % (r["files"], r["rc"], r["stderr_tail"][-160:])
        else:
            if "guarded function" in label:
                # the region's condition is one more witness: both files, each at least as long as the reference run's
                complete = len(r["files"]) == 2 and (pos != "after-output" or all(r["files"][f] >= ref["files"][f] for f in ref["files"]))
            else:
                complete = r["files"] == ref["files"] if pos == "after-output" else len(r["files"]) == 2
            # a failing end: no artefact AND a non-zero status (a swallowed sys.exit(3) ends with status 0 and no proof)
            good = (complete and r["rc"] == 0) if ok else (not r["files"] and r["rc"] != 0)
            nm = "X.mode[%s]" % label
            detail = "position=%s expected_artefacts=%s files=%r rc=%d" % (pos, ok, r["files"], r["rc"])
        out.append(("cpython:termination", dict(position=pos, autoprove=auto),
                    dict(name=nm, path=pos, verdict="proved" if good else "refuted", backend="subprocess-probe", s=0.0,
                         detail=detail, model=dict(mode=label, position=pos, autoprove=auto, observed=r))))
    return out
