"""pyvc.ghost -- the abstract backend (contracts/backend_iface) and the ghost trace.

This module *is* the written interface between the gadget layer and the
backend layer: the gadget layer (runtime.py, boolean.py, ...) is verified
against it, the concrete backends are verified to implement it (C13).

State:
  * variables (GVar): kind pub/priv/one/opnd/res, an honest value `h` (the
    integer the code handed to pubval/privval -- a z3 Int term over the operand
    values) and an adversarial value `a` (a fresh field element, 0 <= a < p);
  * linear combinations (GLC): finite map var -> integer coefficient, with
    exact pointwise + - neg and * int;
  * trace: the append-only list of events (allocations, triples, callee groups).
"""
import types
import z3

from . import sym
from .sym import SymInt, Z, term, imul, fmul, cur

PRIMES = {
    "bn254": 21888242871839275222246405745257275088548364400416034343698204186575808495617,
    "bls12_381": 52435875175126190479447740508185965837690552500527637822603658699938581184513,
    "curve25519": 7237005577332262213973186563042994240857116359379907606001950938285454250989,
}


class GVar:
    __slots__ = ("idx", "kind", "h", "a", "name")

    def __init__(self, idx, kind, h, a, name):
        self.idx = idx
        self.kind = kind
        self.h = h
        self.a = a
        self.name = name

    def __repr__(self):
        return "%s%d" % (self.kind[0], self.idx)


class GLC:
    """Abstract linear combination: dict GVar -> coefficient (int or SymInt)."""

    def __init__(self, m):
        self.m = m

    def __add__(self, o):
        if not isinstance(o, GLC):
            return NotImplemented
        m = dict(self.m)
        for k, c in o.m.items():
            m[k] = (m[k] + c) if k in m else c
        return GLC(m)

    def __neg__(self):
        return GLC({k: -c for k, c in self.m.items()})

    def __sub__(self, o):
        if not isinstance(o, GLC):
            return NotImplemented
        return self + (-o)

    def __mul__(self, o):
        if not isinstance(o, int):
            raise TypeError("abstract LC multiplied by non-integer %r" % (type(o),))
        return GLC({k: c * o for k, c in self.m.items()})

    def __repr__(self):
        return "GLC(%s)" % ", ".join("%r:%s" % (k, c) for k, c in self.m.items())


class Event:
    pass


class Alloc(Event):
    def __init__(self, var, checked):
        self.var = var
        self.checked = checked


class Con(Event):
    def __init__(self, A, B, C, checked):
        self.A, self.B, self.C = A, B, C
        self.checked = checked


class Grp(Event):
    """Events of one call to a contracted callee, summarised by its contract."""

    def __init__(self, name, key, sat_a, counts, checked, cfacts=None):
        self.name = name
        self.key = key
        self.sat_a = sat_a          # z3 Bool: all triples of that call hold under `a`
        self.counts = counts        # (npub, npriv, ncon) or None
        self.checked = checked


class Ghost:
    """Ghost backend state for one path."""

    def __init__(self, world, p):
        self.w = world
        self.p = p
        self.trace = []
        self.vars = []
        self.npub = 0
        self.npriv = 0
        self.rt = None
        cur().p = p
        self.ONE = GVar(0, "one", Z(1), Z(1), "one")
        self._inv = {}
        self.opnds = []
        self.ties = []          # a_x == h_x mod p for the operands: hypotheses of tied clauses
        self.publics = []

    # -- variables --------------------------------------------------------------
    def _new(self, kind, h, name=None, tie=False):
        P = cur()
        idx = len(self.vars) + 1
        nm = name or "%s%d" % (kind, idx)
        if tie:
            hh = term(h)
            if z3.is_int_value(z3.simplify(hh)):
                a = z3.simplify(hh % self.p)
            else:
                # a named field element equal to h mod p (keeps `mod` out of the terms the clauses are built from)
                a = P.fresh("t_" + nm, define=(lambda val, hh=hh, p=self.p: val(hh) % p))
                # the tie is a HYPOTHESIS of the clauses that need it (verify.run_config adds self.ties to the S/E
                # obligations of clauses not declared `untied`); a global axiom would let a clause that only holds
                # for tied operands be used at call sites whose arguments are fresh witnesses
                P.axiom(z3.And(a >= 0, a < self.p))
                self.ties.append(a == hh % self.p)
        else:
            hh = term(h)
            a = P.fresh("a_" + nm, define=(lambda val, hh=hh, p=self.p: val(hh) % p))      # default: the honest value
            P.axiom(z3.And(a >= 0, a < self.p))
        v = GVar(idx, kind, term(h), a, nm)
        self.vars.append(v)
        return v

    def checked(self):
        rt = self.rt
        if rt is None:
            return True
        if rt.guard is not None:
            return True
        return not rt._ignore_errors

    def operand(self, h, name, tie=True):
        """An operand wire: honest value h; adversarial value tied to h mod p
        (the statement of C02/C03: operands keep their values) unless tie=False."""
        v = self._new("opnd", h, name, tie=tie)
        self.opnds.append(v)
        return GLC({v: 1})

    def result_wire(self, h, name="res"):
        v = self._new("res", h, name)
        return GLC({v: 1}), v

    # -- backend interface ---------------------------------------------------------
    def privval(self, val):
        if not isinstance(val, int):
            raise TypeError("privval of non-int")
        v = self._new("priv", val)
        self.npriv += 1
        self.trace.append(Alloc(v, self.checked()))
        return GLC({v: 1})

    def pubval(self, val):
        if not isinstance(val, int):
            raise TypeError("pubval of non-int")
        v = self._new("pub", val)
        self.npub += 1
        self.trace.append(Alloc(v, self.checked()))
        return GLC({v: 1})

    def zero(self):
        return GLC({})

    def one(self):
        return GLC({self.ONE: 1})

    def get_modulus(self):
        return self.p

    def fieldinverse(self, val):
        if not isinstance(val, SymInt):
            if val % self.p == 0:
                raise ZeroDivisionError
            return pow(val, -1, self.p)
        P = cur()
        t = z3.simplify(val.t)
        if P.decide(t % self.p == 0):
            raise ZeroDivisionError
        key = t.get_id()
        if key not in self._inv:
            w = P.fresh("inv", define=(lambda val, t=t, p=self.p: pow(val(t) % p, -1, p)))
            P.axiom(z3.And(w > 0, w < self.p))
            P.axiom(fmul(t % self.p, w) == 1)
            self._inv[key] = (w, t)
        return SymInt(self._inv[key][0])

    def add_constraint(self, v, w, y):
        for x in (v, w, y):
            if not isinstance(x, GLC):
                raise TypeError("add_constraint with non-LC %r" % (x,))
        self.trace.append(Con(v, w, y, self.checked()))

    def prove(self):
        self.w.stdout.append(("<ghost>", ("prove",)))

    # -- evaluation -----------------------------------------------------------------
    def ev_h(self, lc):
        """Honest evaluation over the integers (not reduced)."""
        return z3.simplify(z3.Sum([Z(0)] + [imul(term(c), v.h) for v, c in lc.m.items()]))

    def ev_a(self, lc):
        """Adversarial evaluation, reduced mod p."""
        items = [(v, c) for v, c in lc.m.items() if not (isinstance(c, int) and not isinstance(c, SymInt) and c == 0)]
        if len(items) == 1 and not isinstance(items[0][1], SymInt) and items[0][1] == 1:
            return items[0][0].a            # already reduced: 0 <= a < p
        if not items:
            return Z(0)
        s = z3.Sum([Z(0)] + [imul(term(c), v.a) for v, c in items])
        r = z3.simplify(s % self.p)
        # redundant but true: every wire value lies in [0,p), so with numeric coefficients the quotient of the
        # sum by p is bounded by the sums of the negative / positive coefficients -- spares the solver the search
        if all(not isinstance(c, SymInt) for v, c in items):
            lo = sum(c for v, c in items if c < 0)
            hi = sum(c for v, c in items if c > 0)
            key = ("qb", r.get_id())
            memo = cur().__dict__.setdefault("_qbounds", set())
            if key not in memo and hi - lo < (1 << 70):
                memo.add(key)
                q = z3.simplify(s / Z(self.p))
                cur().axiom(z3.And(q >= lo, q <= hi))
        return r

    def holds_h(self, con):
        """Triple holds on the honest assignment mod p."""
        A, B, C = self.ev_h(con.A), self.ev_h(con.B), self.ev_h(con.C)
        return z3.simplify((imul(A, B) - C) % self.p == 0)

    def holds_h_int(self, con):
        A, B, C = self.ev_h(con.A), self.ev_h(con.B), self.ev_h(con.C)
        return z3.simplify(imul(A, B) == C)

    def holds_a(self, con):
        A, B, C = self.ev_a(con.A), self.ev_a(con.B), self.ev_a(con.C)
        return fmul(A, B) == C

    def own_cons(self, start=0):
        return [e for e in self.trace[start:] if isinstance(e, Con)]

    def groups(self, start=0):
        return [e for e in self.trace[start:] if isinstance(e, Grp)]

    def sat_a(self, start=0):
        fs = []
        for e in self.trace[start:]:
            if isinstance(e, Con):
                fs.append(self.holds_a(e))
            elif isinstance(e, Grp):
                fs.append(e.sat_a)
        return fs

    # -- signatures for the trace-shape facet ---------------------------------------
    def lc_sig(self, lc):
        out = []
        for v, c in lc.m.items():
            ct = z3.simplify(term(c))
            if z3.is_int_value(ct) and ct.as_long() % self.p == 0:
                cs = "0"
            elif z3.is_int_value(ct):
                cs = str(ct.as_long() % self.p)
            else:
                cs = ct.sexpr()
            out.append((v.kind[0] + str(v.idx), cs))
        out.sort()
        return tuple(out)

    def trace_sig(self, start=0):
        sig = []
        for e in self.trace[start:]:
            if isinstance(e, Alloc):
                sig.append((e.var.kind,))
            elif isinstance(e, Con):
                sig.append(("con", self.lc_sig(e.A), self.lc_sig(e.B), self.lc_sig(e.C)))
            else:
                sig.append(("grp", e.name, e.key, e.counts))
        return tuple(sig)

    def counts(self, start=0):
        npub = npriv = ncon = 0
        for e in self.trace[start:]:
            if isinstance(e, Alloc):
                if e.var.kind == "pub":
                    npub += 1
                else:
                    npriv += 1
            elif isinstance(e, Con):
                ncon += 1
            elif e.counts is not None:
                npub += e.counts[0]
                npriv += e.counts[1]
                ncon += e.counts[2]
        return (npub, npriv, ncon)


def make_backend_module(world, ghost, name="pysnark.snarkjsbackend"):
    m = types.ModuleType(name)
    for f in ("privval", "pubval", "zero", "one", "get_modulus", "fieldinverse", "add_constraint", "prove"):
        setattr(m, f, getattr(ghost, f))
    m.ghost = ghost
    return m
