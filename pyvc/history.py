"""pyvc.history -- pre-states reached through an earlier call.

The per-call contracts describe an operand by (value, wire expression).  That is only sound while no
function keeps state anywhere else; the obligation `frame.assigns` proves exactly that, and while it holds,
what happened before a call cannot matter.  When it FAILS (a function started to write an attribute on an
operand, a module global, ...), the contracts' pre-states are no longer all pre-states the API can produce.
This module constructs the ones reachable with one earlier call of the same function on the same operands
(depth-2 histories; a search for a failing input, not part of any proof):

  g0     the earlier call ran inside a guarded region whose guard is 0 (dead code: its constraints are void)
  wider  the earlier call ran with every explicit plain-int parameter (a bit width) increased by 4,
         or, when there is none, with runtime.bitlength increased by 4

The same function body runs in the symbolic interpreter (pyvc.verify) and in CPython (pyvc.native)."""
from . import sym

KINDS = ("g0", "wider")


def prelude(c, kind, fn, args, kwargs, passthrough=()):
    """Run the earlier call.  Returns False when `kind` does not apply to this call."""
    rt = c.rt
    saved = (rt.guard, rt.LinComb.ONE, rt._ignore_errors, rt.bitlength)
    a2, k2 = list(args), dict(kwargs)
    if kind == "g0":
        G = c.operand("hguard")
        sym.cur().assume(sym.term(G.value) == 0)
        rt.guard = G
        rt.LinComb.ONE = G
        rt._ignore_errors = True
    elif kind == "wider":
        hit = False
        for i, x in enumerate(a2):
            if i >= 1 and type(x) is int:
                a2[i] = x + 4
                hit = True
        for k, x in k2.items():
            if type(x) is int:
                k2[k] = x + 4
                hit = True
        if not hit:
            if type(rt.bitlength) is not int:
                return False
            rt.bitlength = rt.bitlength + 4
    else:
        return False
    try:
        fn(*a2, **k2)
    except passthrough:
        raise
    except BaseException:     # noqa  an exception of the code under verification: the earlier call failed, the state stays
        pass
    finally:
        rt.guard, rt.LinComb.ONE, rt._ignore_errors, rt.bitlength = saved
    return True
