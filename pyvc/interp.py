"""pyvc.interp -- an AST interpreter for the Python subset pysnark uses.

The interpreter walks the AST of the *real* files under /repo (parsed anew on
every run; nothing is copied or transcribed).  Values are native Python
objects: classes are created with type(), functions are real callables that
re-enter the interpreter, exceptions are real exceptions, containers are real
containers -- so operator dispatch, MRO, isinstance, bound methods, slicing and
exception matching are CPython's own and are not re-implemented here.  What
the interpreter adds over running the code natively:

 * statement-level control: a call to a function that has a sidecar contract
   is replaced by that contract (modular verification); loops that carry an
   invariant are cut; every branch on a symbolic condition is a recorded
   decision of the current path;
 * a virtual process environment (sys.modules, os.environ, files, stdout,
   atexit, frames) so that module-level code can be executed for every
   environment a property quantifies over;
 * guards at the places where CPython would read the concrete payload of a
   symbolic integer (range, indexing, int(), bytes()).
"""
import ast
import builtins
import operator
import os
import sys
import types

from . import sym
from .sym import SymInt, SymBool, Escape, truth

REPO = os.environ.get("PYVC_REPO", "/repo")


class Unsupported(Exception):
    """Syntax / feature outside the covered subset: cannot analyse (exit 3)."""


class _Return(BaseException):
    def __init__(self, v):
        self.v = v


class _Break(BaseException):
    pass


class _Continue(BaseException):
    pass


_AST_CACHE = {}


def load_ast(path):
    st = os.stat(path)
    key = (path, st.st_mtime_ns, st.st_size)
    if key not in _AST_CACHE:
        with open(path, "rb") as f:
            src = f.read()
        _AST_CACHE[key] = (ast.parse(src, filename=path), src)
    return _AST_CACHE[key]


# ---------------------------------------------------------------------------
# scope analysis
# ---------------------------------------------------------------------------

class _Scope(ast.NodeVisitor):
    """Names bound in a function body (not descending into nested scopes)."""

    def __init__(self):
        self.bound = set()
        self.globals = set()
        self.nonlocals = set()

    def visit_Name(self, n):
        if isinstance(n.ctx, (ast.Store, ast.Del)):
            self.bound.add(n.id)

    def visit_FunctionDef(self, n):
        self.bound.add(n.name)
        for d in n.decorator_list:
            self.visit(d)
        for d in n.args.defaults + [k for k in n.args.kw_defaults if k is not None]:
            self.visit(d)

    visit_AsyncFunctionDef = visit_FunctionDef

    def visit_ClassDef(self, n):
        self.bound.add(n.name)
        for b in n.bases:
            self.visit(b)

    def visit_Lambda(self, n):
        for d in n.args.defaults:
            self.visit(d)

    def _comp(self, n):
        # first iterable is evaluated in the enclosing scope; targets are local to the comprehension
        self.visit(n.generators[0].iter)

    visit_ListComp = visit_SetComp = visit_DictComp = visit_GeneratorExp = _comp

    def visit_Global(self, n):
        self.globals.update(n.names)

    def visit_Nonlocal(self, n):
        self.nonlocals.update(n.names)

    def visit_Import(self, n):
        for a in n.names:
            self.bound.add((a.asname or a.name).split(".")[0])

    def visit_ImportFrom(self, n):
        for a in n.names:
            self.bound.add(a.asname or a.name)

    def visit_ExceptHandler(self, n):
        if n.name:
            self.bound.add(n.name)
        self.generic_visit(n)

    def visit_NamedExpr(self, n):
        self.bound.add(n.target.id)
        self.visit(n.value)


def _fn_locals(node):
    s = _Scope()
    a = node.args
    names = [x.arg for x in a.posonlyargs + a.args + a.kwonlyargs]
    if a.vararg:
        names.append(a.vararg.arg)
    if a.kwarg:
        names.append(a.kwarg.arg)
    body = node.body if isinstance(node.body, list) else [node.body]
    for st in body:
        s.visit(st)
    loc = (set(names) | s.bound) - s.globals - s.nonlocals
    return loc, s.globals, s.nonlocals


def _has_yield(node):
    for sub in ast.walk(node):
        if isinstance(sub, (ast.Yield, ast.YieldFrom)):
            return True
    return False


# ---------------------------------------------------------------------------
# frames / functions
# ---------------------------------------------------------------------------

class Frame:
    def __init__(self, kind, module, static, local_names, gl=(), nl=(), ifn=None, f_back=None):
        self.kind = kind              # 'module' | 'function' | 'class' | 'comp'
        self.module = module          # module object (globals = module.__dict__)
        self.static = static          # enclosing *function* frame (lexical) or None
        self.local_names = local_names
        self.globals_decl = set(gl)
        self.nonlocals_decl = set(nl)
        self.locals = {}
        self.ifn = ifn
        self.f_back = f_back          # dynamic link (for inspect.currentframe emulation)
        self.f_lineno = 0
        self.cls = None               # defining class for zero-arg super()

    # as CPython: every read of frame.f_lineno builds a NEW int object (identical objects only for the small cached
    # ints up to 256), so code that compares line numbers with `is` behaves here as it does there
    @property
    def f_lineno(self):
        return int(str(self._lineno))

    @f_lineno.setter
    def f_lineno(self, v):
        self._lineno = v

    @property
    def f_locals(self):
        return self.locals if self.kind != "module" else self.module.__dict__

    @property
    def f_globals(self):
        return self.module.__dict__


class IFunc:
    def __init__(self, node, module, static, qualname, defaults, kwdefaults, cls_holder):
        self.node = node
        self.module = module
        self.static = static
        self.qualname = qualname
        self.defaults = defaults
        self.kwdefaults = kwdefaults
        self.cls_holder = cls_holder   # list with the defining class (filled after class creation)
        self.local_names, self.gl, self.nl = _fn_locals(node)
        self.is_gen = _has_yield(node) if not isinstance(node, ast.Lambda) else False

    @property
    def fullname(self):
        return self.module.__name__ + ":" + self.qualname


_BINOPS = {
    ast.Add: operator.add, ast.Sub: operator.sub, ast.Mult: operator.mul,
    ast.Div: operator.truediv, ast.FloorDiv: operator.floordiv, ast.Mod: operator.mod,
    ast.Pow: operator.pow, ast.LShift: operator.lshift, ast.RShift: operator.rshift,
    ast.BitAnd: operator.and_, ast.BitOr: operator.or_, ast.BitXor: operator.xor,
    ast.MatMult: operator.matmul,
}
_IBINOPS = {
    ast.Add: operator.iadd, ast.Sub: operator.isub, ast.Mult: operator.imul,
    ast.Div: operator.itruediv, ast.FloorDiv: operator.ifloordiv, ast.Mod: operator.imod,
    ast.Pow: operator.ipow, ast.LShift: operator.ilshift, ast.RShift: operator.irshift,
    ast.BitAnd: operator.iand, ast.BitOr: operator.ior, ast.BitXor: operator.ixor,
    ast.MatMult: operator.imatmul,
}
_CMPOPS = {
    ast.Eq: operator.eq, ast.NotEq: operator.ne, ast.Lt: operator.lt, ast.LtE: operator.le,
    ast.Gt: operator.gt, ast.GtE: operator.ge,
    ast.Is: operator.is_, ast.IsNot: operator.is_not,
}


def _is_sym(x):
    return isinstance(x, SymInt)


class VFile:
    """Virtual file: a ghost buffer of write records and the flushed disk content."""

    def __init__(self, world, name, mode, truncate=None):
        self.world = world
        self.name = name
        self.mode = mode
        self.buffer = []
        self.closed = False
        if "w" in mode:
            if truncate is False and world.fs.get(name):
                # opened for writing WITHOUT truncation (os.open without O_TRUNC): what was there stays behind whatever
                # this run writes over its beginning
                world.stale_tail[name] = list(world.fs[name])
            world.fs[name] = []
        elif "r" in mode and name not in world.fs:
            raise FileNotFoundError(name)

    def fileno(self):
        fd = self.world.new_fd(self.name, 0)
        return fd

    def write(self, data):
        if self.closed:
            raise ValueError("I/O operation on closed file.")
        self.buffer.append(data)
        self.world.io_events.append(("write", self.name, data))

    def flush(self):
        self.world.fs[self.name].extend(self.buffer)
        self.buffer = []
        self.world.io_events.append(("flush", self.name))

    def close(self):
        if not self.closed:
            self.flush()
            self.closed = True
            self.world.io_events.append(("close", self.name))

    def __iter__(self):
        return self

    def __next__(self):
        # a file object is its own iterator (next(f) reads the next line)
        if not hasattr(self, "_lines"):
            self._lines = list(self.world.read_lines(self.name))
            self._pos = 0
        if self._pos >= len(self._lines):
            raise StopIteration
        self._pos += 1
        return self._lines[self._pos - 1]

    def readline(self):
        try:
            return next(self)
        except StopIteration:
            return ""

    def __enter__(self):
        return self

    def __exit__(self, *a):
        self.close()

    def __del__(self):
        # CPython closes (and thereby flushes) a file object when its last reference goes away
        try:
            if not self.closed:
                self.close()
        except Exception:
            pass


class World:
    """One interpreted universe: virtual sys.modules, environment, files, output."""

    def __init__(self, repo=None, environ=None, preimported=(), contracts=None,
                 module_overrides=None, loadable=None, ipython=False):
        self.repo = repo or REPO
        self.modules = {}
        self.environ = dict(environ or {})
        self.contracts = contracts or {}        # fullname -> contract object
        self.use_contracts = True
        self.target = None                      # fullname of the function under verification
        self.target_entered = False
        self.module_overrides = dict(module_overrides or {})   # name -> module object / factory
        self.loadable = loadable                # None = everything on disk; else dict name->bool
        self.ipython = ipython
        self.fs = {}                            # virtual disk: name -> list of records
        self.io_events = []
        self.stdout = []                        # print records (stream, args)
        self.atexit = []
        self.frames = []                        # dynamic frame stack
        self.call_depth = 0
        self.coverage = set()                   # (file, lineno) executed
        self.import_log = []
        self.loop_hooks = {}                    # (fullname, ordinal) -> handler
        self.call_log = []
        self.max_depth = 400
        self.vsys = self._make_sys()
        self.vos = self._make_os()
        self.builtins = self._make_builtins()
        for m in preimported:
            self.import_module(m)

    # -- virtual stdlib ------------------------------------------------------
    def _make_sys(self):
        w = self
        m = types.ModuleType("sys")
        m.modules = self.modules
        m.stderr = "<stderr>"
        m.stdout = "<stdout>"
        m.argv = ["script"]
        m.version_info = sys.version_info

        def _exit(code=0):
            raise SystemExit(code)

        def _excepthook(tp, ex, *a):
            w.stdout.append(("<stderr>", ("Traceback", tp.__name__)))
        m.exit = _exit
        m.excepthook = _excepthook
        m.__excepthook__ = _excepthook           # the interpreter's own hook, as sys.__excepthook__
        m.exc_info = sys.exc_info
        return m

    def _make_os(self):
        m = types.ModuleType("os")
        m.environ = self.environ
        # os.path sees the virtual files first (a block file written earlier in the same run exists)
        vp = types.ModuleType("os.path")
        vp.__dict__.update({k: v for k, v in vars(os.path).items() if not k.startswith("__")})
        w = self
        vp.isfile = lambda p_: (p_ in w.fs) or os.path.isfile(p_)
        vp.exists = lambda p_: (p_ in w.fs) or os.path.exists(p_)
        m.path = vp
        self.vospath = vp
        m.name = "posix"
        m.sep = os.sep
        # file descriptors: just enough of os.open / os.fdopen / os.fsync / os.close for code that opens its output
        # files with explicit flags or syncs them (fsync pushes what the OS holds: it does NOT empty Python's buffer)
        for k in ("O_RDONLY", "O_WRONLY", "O_RDWR", "O_CREAT", "O_TRUNC", "O_APPEND", "O_EXCL"):
            setattr(m, k, getattr(os, k))
        self.fds = {}
        self.stale_tail = {}

        def new_fd(name, flags):
            fd = 100 + len(w.fds)
            w.fds[fd] = (name, flags)
            return fd
        self.new_fd = new_fd

        def v_os_open(name, flags, mode=0o777, *a, **k):
            exists = (name in w.fs) or os.path.exists(name)
            if not exists and not flags & os.O_CREAT:
                raise FileNotFoundError(name)
            if exists and flags & os.O_EXCL and flags & os.O_CREAT:
                raise FileExistsError(name)
            return new_fd(name, flags)

        def v_fdopen(fd, mode="r", *a, **k):
            name, flags = w.fds[fd]
            return VFile(w, name, mode, truncate=bool(flags & os.O_TRUNC))

        def v_fsync(fd):
            if fd not in w.fds:
                raise OSError(9, "Bad file descriptor")
            w.io_events.append(("fsync", w.fds[fd][0]))
        m.open, m.fdopen, m.fsync, m.fdatasync = v_os_open, v_fdopen, v_fsync, v_fsync
        m.close = lambda fd: w.fds.pop(fd, None)
        return m

    def _make_builtins(self):
        w = self
        b = dict(vars(builtins))

        def v_print(*args, sep=" ", end="\n", file=None, flush=False):
            if isinstance(file, VFile):
                file.write(("print", args, sep, end))
                if flush:
                    file.flush()
            else:
                w.stdout.append((file if file is not None else "<stdout>", args))

        def v_open(name, mode="r", *a, **k):
            return VFile(w, name, mode)

        def v_int(x=0, *a):
            if _is_sym(x):
                return x if not isinstance(x, SymBool) else sym.lift(x.t)
            if isinstance(x, sym.SymQuot):
                return x.to_int()
            return int(x, *a)

        def v_bool(x=False):
            return truth(x)

        def v_range(*a):
            for x in a:
                if _is_sym(x):
                    raise Escape("range() of symbolic int")
            return range(*a)

        def v_bytes(x=b"", *a, **k):
            if isinstance(x, (list, tuple)) and any(_is_sym(e) for e in x):
                return SymBytes(list(x))
            return bytes(x, *a, **k)

        def v_float(x=0.0):
            if _is_sym(x):
                return SymRat(x.t, 1)
            return float(x)

        def v_import(name, globals=None, locals=None, fromlist=(), level=0):
            raise Unsupported("__import__")

        def v_get_ipython():
            if not w.ipython:
                raise NameError("name 'get_ipython' is not defined")
            return object()

        def v_len(x):
            h = getattr(x, "sym_len", None)
            return h() if h is not None else len(x)

        b["len"] = v_len
        b.update(print=v_print, open=v_open, int=_IntProxy(v_int), bool=_BoolProxy(v_bool),
                 range=v_range, bytes=v_bytes, float=_FloatProxy(v_float), __import__=v_import)

        def v_type(*a, **k):
            # type(x): the stand-ins for int / bool / float are what the names `int`, `bool`, `float` evaluate to in
            # interpreted code, so `type(x) is int` must answer with the very same object; a symbolic integer is an
            # int (a symbolic truth value a bool), as its concrete instances are
            if len(a) == 1 and not k:
                x = a[0]
                if isinstance(x, SymBool):
                    return b["bool"]
                if isinstance(x, SymInt):
                    return b["int"]
                t = type(x)
                if t is bool:
                    return b["bool"]
                if t is int:
                    return b["int"]
                if t is float:
                    return b["float"]
                return t
            return type(*a, **k)
        tp = _TypeTypeProxy(v_type)
        b["type"] = tp
        if self.ipython:
            b["get_ipython"] = v_get_ipython
        return b

    def unflushed(self, name):
        """Number of records written to `name` that still sit in the buffer of an open file object."""
        return len([r for f in getattr(self, "open_files", []) if f.name == name and not f.closed for r in f.buffer])

    def read_lines(self, name):
        """Text lines of a virtual file as the reader sees them (flushed content only)."""
        import gc
        gc.collect()      # file objects that became unreachable are closed (CPython does so by reference counting)
        out = []
        cur = ""
        recs = self.fs.get(name, [])
        if recs and all(isinstance(rec, RawLine) for rec in recs):
            return list(recs)           # pre-seeded abstract lines (a contract's stand-in for file content it cannot know)
        for rec in recs:
            if isinstance(rec, tuple) and rec[0] == "print":
                _, args, sep, end = rec
                cur += sep.join(str(a) for a in args) + end
            else:
                cur += str(rec)
        if cur:
            out = cur.splitlines(True)
        return out

    # -- import system ---------------------------------------------------------
    _STD = {"importlib", "copy", "inspect", "functools", "random", "warnings", "atexit", "math",
            "hashlib", "struct", "subprocess", "shutil", "os.path", "itertools", "operator"}

    def _path_of(self, name):
        base = os.path.join(self.repo, *name.split("."))
        if os.path.isdir(base) and os.path.isfile(os.path.join(base, "__init__.py")):
            return os.path.join(base, "__init__.py"), True
        if os.path.isfile(base + ".py"):
            return base + ".py", False
        return None, False

    def import_module(self, name):
        if name in self.modules:
            return self.modules[name]
        self.import_log.append(name)
        if name == "sys":
            return self.vsys
        if name == "os":
            return self.vos
        if name == "os.path":
            return self.vospath
        if name == "importlib":
            m = types.ModuleType("importlib")
            m.import_module = self.import_module
            return m
        if name == "atexit":
            m = types.ModuleType("atexit")
            m.register = lambda fn, *a, **k: (self.atexit.append((fn, a, k)), fn)[1]
            return m
        if name == "inspect":
            m = types.ModuleType("inspect")
            m.currentframe = lambda: self.frames[-1] if self.frames else None
            return m
        if name in self.module_overrides:
            mod = self.module_overrides[name]
            if callable(mod) and not isinstance(mod, types.ModuleType):
                mod = mod(self)
            self.modules[name] = mod
            self._bind_parent(name, mod)
            return mod
        top = name.split(".")[0]
        if top != "pysnark":
            if self.loadable is not None and not self.loadable.get(name, True):
                raise ImportError("No module named %r (declared unloadable)" % name)
            import importlib
            return importlib.import_module(name)
        if self.loadable is not None and not self.loadable.get(name, True):
            raise ImportError("module %r declared unloadable in this configuration" % name)
        # parents first
        if "." in name:
            self.import_module(name.rsplit(".", 1)[0])
        path, is_pkg = self._path_of(name)
        if path is None:
            raise ModuleNotFoundError("No module named %r" % name)
        tree, _ = load_ast(path)
        mod = types.ModuleType(name)
        mod.__file__ = path
        mod.__package__ = name if is_pkg else name.rpartition(".")[0]
        if is_pkg:
            mod.__path__ = [os.path.dirname(path)]
        self.modules[name] = mod
        fr = Frame("module", mod, None, set())
        try:
            Interp(self).exec_block(tree.body, fr)
        except BaseException:
            self.modules.pop(name, None)
            raise
        self._bind_parent(name, mod)
        return mod

    def _bind_parent(self, name, mod):
        if "." in name:
            parent, _, child = name.rpartition(".")
            if parent in self.modules:
                setattr(self.modules[parent], child, mod)


class _TypeProxy:
    """Callable stand-in for a builtin type that keeps isinstance(x, int) working."""
    real = None

    def __init__(self, fn):
        self.fn = fn

    def __call__(self, *a, **k):
        return self.fn(*a, **k)

    def __getattr__(self, nm):
        return getattr(self.real, nm)


class _IntProxy(_TypeProxy):
    real = int


class _BoolProxy(_TypeProxy):
    real = bool


class _FloatProxy(_TypeProxy):
    real = float


class _TypeTypeProxy(_TypeProxy):
    real = type


_PROXY_REAL = {_IntProxy: int, _BoolProxy: bool, _FloatProxy: float, _TypeTypeProxy: type}


def _unproxy(t):
    if isinstance(t, _TypeProxy):
        return t.real
    if isinstance(t, tuple):
        return tuple(_unproxy(x) for x in t)
    return t


class SymRat:
    """float(<symbolic int>) and its quotient by a concrete power of two: an exact rational
    num/den (the only float arithmetic applied to secret values: LinCombFxp.remove_scaling)."""

    def __init__(self, num, den):
        self.num, self.den = num, den

    def __truediv__(self, o):
        if isinstance(o, int) and not _is_sym(o) and o > 0:
            return SymRat(self.num, self.den * o)
        raise Escape("arithmetic on float(symbolic) other than division by a positive int")

    def __repr__(self):
        return "<symrat /%d>" % self.den


class RawLine(str):
    """A line of a pre-seeded virtual file handed to the reader as it is (see World.read_lines)."""


class SymBytes:
    """bytes([...]) with symbolic elements: a sequence of byte-valued terms."""

    def __init__(self, elems):
        self.elems = elems

    def __len__(self):
        return len(self.elems)

    def __iter__(self):
        return iter(self.elems)

    def __getitem__(self, i):
        r = self.elems[i]
        return SymBytes(r) if isinstance(i, slice) else r

    @staticmethod
    def _elems_of(o):
        if isinstance(o, SymBytes):
            return list(o.elems)
        if isinstance(o, (bytes, bytearray)):
            return list(o)
        return None

    def __add__(self, o):
        e = SymBytes._elems_of(o)
        return NotImplemented if e is None else SymBytes(list(self.elems) + e)

    def __radd__(self, o):
        e = SymBytes._elems_of(o)
        return NotImplemented if e is None else SymBytes(e + list(self.elems))


# ---------------------------------------------------------------------------
# interpreter
# ---------------------------------------------------------------------------

class Interp:
    def __init__(self, world):
        self.w = world

    # -- name resolution -------------------------------------------------------
    def _lookup(self, name, fr):
        f = fr
        # class / comp frames look at their own locals first, then up the static chain
        while f is not None:
            if f.kind == "module":
                break
            if name in f.globals_decl:
                break
            if name in f.locals:
                return f.locals[name]
            if f.kind == "function" and name in f.local_names and name not in f.nonlocals_decl:
                raise UnboundLocalError("local variable %r referenced before assignment" % name)
            f = f.static
        g = fr.module.__dict__
        if name in g:
            return g[name]
        if name in self.w.builtins:
            return self.w.builtins[name]
        raise NameError("name %r is not defined" % name)

    def _store(self, name, val, fr):
        if fr.kind == "module" or name in fr.globals_decl:
            fr.module.__dict__[name] = val
            return
        if name in fr.nonlocals_decl:
            f = fr.static
            while f is not None:
                if f.kind == "function" and (name in f.local_names):
                    f.locals[name] = val
                    return
                f = f.static
            raise SyntaxError("no binding for nonlocal %r" % name)
        if fr.kind == "comp" and name not in fr.local_names:
            # walrus etc. not supported
            raise Unsupported("store to enclosing scope from comprehension")
        fr.locals[name] = val

    def _delete(self, name, fr):
        if fr.kind == "module" or name in fr.globals_decl:
            del fr.module.__dict__[name]
        else:
            del fr.locals[name]

    # -- statements ------------------------------------------------------------
    def exec_block(self, stmts, fr):
        for st in stmts:
            self.exec_stmt(st, fr)

    def exec_stmt(self, st, fr):
        fr.f_lineno = st.lineno
        self.w.coverage.add((fr.module.__name__, st.lineno))
        m = getattr(self, "s_" + type(st).__name__, None)
        if m is None:
            raise Unsupported("statement %s at %s:%d" % (type(st).__name__, fr.module.__name__, st.lineno))
        try:
            m(st, fr)
        except Exception as e:
            # where in the repository an exception first surfaced (used to tell a program that raises from an engine fault)
            if getattr(e, "_pyvc_where", None) is None:
                try:
                    e._pyvc_where = (fr.module.__name__, st.lineno)
                except Exception:
                    pass
            raise

    def s_Expr(self, st, fr):
        self.ev(st.value, fr)

    def s_Pass(self, st, fr):
        pass

    def s_Assign(self, st, fr):
        v = self.ev(st.value, fr)
        for t in st.targets:
            self.assign(t, v, fr)

    def s_AnnAssign(self, st, fr):
        if st.value is not None:
            self.assign(st.target, self.ev(st.value, fr), fr)

    def s_AugAssign(self, st, fr):
        t = st.target
        op = _IBINOPS[type(st.op)]
        if isinstance(t, ast.Name):
            cur = self._lookup(t.id, fr)
            self._store(t.id, op(cur, self.ev(st.value, fr)), fr)
        elif isinstance(t, ast.Attribute):
            obj = self.ev(t.value, fr)
            cur = getattr(obj, t.attr)
            setattr(obj, t.attr, op(cur, self.ev(st.value, fr)))
        elif isinstance(t, ast.Subscript):
            obj = self.ev(t.value, fr)
            idx = self.ev_index(t.slice, fr, obj)
            cur = obj[idx]
            obj[idx] = op(cur, self.ev(st.value, fr))
        else:
            raise Unsupported("augassign target")

    def assign(self, t, v, fr):
        if isinstance(t, ast.Name):
            self._store(t.id, v, fr)
        elif isinstance(t, ast.Attribute):
            setattr(self.ev(t.value, fr), t.attr, v)
        elif isinstance(t, ast.Subscript):
            obj = self.ev(t.value, fr)
            obj[self.ev_index(t.slice, fr, obj)] = v
        elif isinstance(t, (ast.Tuple, ast.List)):
            if any(isinstance(e, ast.Starred) for e in t.elts):
                raise Unsupported("starred assignment")
            vals = list(v)
            if len(vals) != len(t.elts):
                raise ValueError("not enough / too many values to unpack (expected %d)" % len(t.elts))
            for e, x in zip(t.elts, vals):
                self.assign(e, x, fr)
        else:
            raise Unsupported("assignment target %s" % type(t).__name__)

    def s_Delete(self, st, fr):
        for t in st.targets:
            if isinstance(t, ast.Name):
                self._delete(t.id, fr)
            elif isinstance(t, ast.Subscript):
                obj = self.ev(t.value, fr)
                del obj[self.ev_index(t.slice, fr, obj)]
            elif isinstance(t, ast.Attribute):
                delattr(self.ev(t.value, fr), t.attr)
            else:
                raise Unsupported("del target")

    def s_Return(self, st, fr):
        raise _Return(self.ev(st.value, fr) if st.value is not None else None)

    def s_If(self, st, fr):
        if truth(self.ev(st.test, fr)):
            self.exec_block(st.body, fr)
        else:
            self.exec_block(st.orelse, fr)

    def _while_test(self, st, fr):
        fr.f_lineno = st.test.lineno          # as CPython: the frame's line is that of the test
        return truth(self.ev(st.test, fr))

    def s_While(self, st, fr):
        n = 0
        while self._while_test(st, fr):
            n += 1
            if n > 100000:
                raise Unsupported("while loop bound exceeded")
            try:
                self.exec_block(st.body, fr)
            except _Break:
                break
            except _Continue:
                continue
        else:
            self.exec_block(st.orelse, fr)

    def s_For(self, st, fr):
        it = self.ev(st.iter, fr)
        hook = None
        if fr.ifn is not None and self.w.loop_hooks:
            ordn = self._loop_ordinal(fr.ifn, st)
            hook = self.w.loop_hooks.get((fr.ifn.fullname, ordn))
            if hook is None:
                # ... or by position among the loops that are statements of the function body itself (a key that does
                # not move when an inner loop is folded into a helper or a comprehension)
                top = [n for n in fr.ifn.node.body if isinstance(n, (ast.For, ast.While))]
                if st in top:
                    hook = self.w.loop_hooks.get((fr.ifn.fullname, "top", top.index(st)))
        if hook is not None:
            hook(self, st, fr, it)
            return
        broke = False
        for x in it:
            self.assign(st.target, x, fr)
            try:
                self.exec_block(st.body, fr)
            except _Break:
                broke = True
                break
            except _Continue:
                continue
        if not broke:
            self.exec_block(st.orelse, fr)

    def _loop_ordinal(self, ifn, st):
        loops = getattr(ifn, "_loops", None)
        if loops is None:
            loops = [n for n in ast.walk(ifn.node) if isinstance(n, (ast.For, ast.While))]
            loops.sort(key=lambda n: (n.lineno, n.col_offset))
            ifn._loops = loops
        return loops.index(st)

    def s_Break(self, st, fr):
        raise _Break()

    def s_Continue(self, st, fr):
        raise _Continue()

    def s_Raise(self, st, fr):
        if st.exc is None:
            raise  # re-raise active exception
        exc = self.ev(st.exc, fr)
        if st.cause is not None:
            raise exc from self.ev(st.cause, fr)
        raise exc

    def s_Assert(self, st, fr):
        if not truth(self.ev(st.test, fr)):
            if st.msg is not None:
                raise AssertionError(self.ev(st.msg, fr))
            raise AssertionError()

    def s_Global(self, st, fr):
        pass

    def s_Nonlocal(self, st, fr):
        pass

    def s_Try(self, st, fr):
        try:
            try:
                self.exec_block(st.body, fr)
            except (_Return, _Break, _Continue, sym.PathAbort, Escape, Unsupported):
                raise
            except BaseException as e:
                for h in st.handlers:
                    if h.type is None:
                        match = True
                    else:
                        et = _unproxy(self.ev(h.type, fr))
                        match = isinstance(e, et)
                    if match:
                        if h.name:
                            self._store(h.name, e, fr)
                        try:
                            self.exec_block(h.body, fr)
                        finally:
                            if h.name and h.name in fr.f_locals:
                                try:
                                    self._delete(h.name, fr)
                                except KeyError:
                                    pass
                        break
                else:
                    raise
            else:
                self.exec_block(st.orelse, fr)
        finally:
            if st.finalbody:
                self.exec_block(st.finalbody, fr)

    def s_With(self, st, fr):
        if len(st.items) != 1:
            raise Unsupported("multi-item with")
        item = st.items[0]
        cm = self.ev(item.context_expr, fr)
        v = cm.__enter__()
        if item.optional_vars is not None:
            self.assign(item.optional_vars, v, fr)
        try:
            self.exec_block(st.body, fr)
        except (_Return, _Break, _Continue):
            cm.__exit__(None, None, None)
            raise
        except BaseException as e:
            if not cm.__exit__(type(e), e, e.__traceback__):
                raise
        else:
            cm.__exit__(None, None, None)

    def s_Import(self, st, fr):
        for a in st.names:
            mod = self.w.import_module(a.name)
            if a.asname:
                self._store(a.asname, mod, fr)
            else:
                top = a.name.split(".")[0]
                self._store(top, self.w.import_module(top), fr)

    def s_ImportFrom(self, st, fr):
        name = st.module or ""
        if st.level:
            pkg = fr.module.__package__ or ""
            parts = pkg.split(".") if pkg else []
            if st.level > 1:
                parts = parts[: len(parts) - (st.level - 1)]
            name = ".".join(parts + ([st.module] if st.module else []))
        mod = self.w.import_module(name)
        for a in st.names:
            if a.name == "*":
                names = getattr(mod, "__all__", None) or [k for k in vars(mod) if not k.startswith("_")]
                for k in names:
                    self._store(k, getattr(mod, k), fr)
                continue
            if hasattr(mod, a.name):
                v = getattr(mod, a.name)
            else:
                try:
                    v = self.w.import_module(name + "." + a.name)
                except ImportError:
                    raise ImportError("cannot import name %r from %r" % (a.name, name))
            self._store(a.asname or a.name, v, fr)

    def s_FunctionDef(self, st, fr):
        fn = self.make_function(st, fr)
        for d in reversed(st.decorator_list):
            fn = self.ev(d, fr)(fn)
        self._store(st.name, fn, fr)

    def s_ClassDef(self, st, fr):
        bases = tuple(_unproxy(self.ev(b, fr)) for b in st.bases)
        if st.keywords:
            raise Unsupported("class keywords / metaclass")
        cfr = Frame("class", fr.module, fr if fr.kind in ("function", "comp") else fr.static, set())
        cfr.qualprefix = self._qual(fr, st.name)
        cfr.cls_holder = [None]
        cfr.f_back = fr
        self.exec_block(st.body, cfr)
        ns = dict(cfr.locals)
        ns.setdefault("__module__", fr.module.__name__)
        ns.setdefault("__qualname__", cfr.qualprefix)
        cls = type(st.name, bases, ns)
        cfr.cls_holder[0] = cls
        for d in reversed(st.decorator_list):
            cls = self.ev(d, fr)(cls)
        self._store(st.name, cls, fr)

    def _qual(self, fr, name):
        if fr.kind == "class":
            return fr.qualprefix + "." + name
        if fr.kind in ("function", "comp"):
            f = fr
            while f.kind == "comp":
                f = f.static
            if f is not None and f.ifn is not None:
                return f.ifn.qualname + ".<locals>." + name
        return name

    def make_function(self, node, fr, name=None):
        a = node.args
        defaults = [self.ev(d, fr) for d in a.defaults]
        kwdefaults = {k.arg: self.ev(d, fr) for k, d in zip(a.kwonlyargs, a.kw_defaults) if d is not None}
        nm = name or getattr(node, "name", "<lambda>")
        qual = self._qual(fr, nm)
        static = fr if fr.kind in ("function", "comp") else fr.static
        holder = fr.cls_holder if fr.kind == "class" else [None]
        ifn = IFunc(node, fr.module, static, qual, defaults, kwdefaults, holder)
        interp = self

        def wrapper(*args, **kwargs):
            return interp.call(ifn, args, kwargs)
        wrapper.__name__ = nm
        wrapper.__qualname__ = qual
        wrapper.__module__ = fr.module.__name__
        wrapper.__ifn__ = ifn
        doc = ast.get_docstring(node) if not isinstance(node, ast.Lambda) else None
        wrapper.__doc__ = doc
        ifn.wrapper = wrapper
        return wrapper

    # -- calls -----------------------------------------------------------------
    def bind_args(self, ifn, args, kwargs):
        a = ifn.node.args
        pos = [x.arg for x in a.posonlyargs + a.args]
        loc = {}
        args = list(args)
        kwargs = dict(kwargs)
        n = len(pos)
        for i, nm in enumerate(pos):
            if i < len(args):
                loc[nm] = args[i]
        extra = args[n:]
        if a.vararg:
            loc[a.vararg.arg] = tuple(extra)
        elif extra:
            raise TypeError("%s() takes %d positional arguments but %d were given" % (ifn.qualname, n, len(args)))
        for nm in [x.arg for x in a.args] + [x.arg for x in a.kwonlyargs]:
            if nm in kwargs:
                if nm in loc:
                    raise TypeError("%s() got multiple values for argument %r" % (ifn.qualname, nm))
                loc[nm] = kwargs.pop(nm)
        nd = len(ifn.defaults)
        for i, nm in enumerate(pos):
            if nm not in loc:
                j = i - (n - nd)
                if j >= 0:
                    loc[nm] = ifn.defaults[j]
                else:
                    raise TypeError("%s() missing required positional argument: %r" % (ifn.qualname, nm))
        for k in a.kwonlyargs:
            if k.arg not in loc:
                if k.arg in ifn.kwdefaults:
                    loc[k.arg] = ifn.kwdefaults[k.arg]
                else:
                    raise TypeError("%s() missing required keyword-only argument: %r" % (ifn.qualname, k.arg))
        if a.kwarg:
            loc[a.kwarg.arg] = kwargs
        elif kwargs:
            raise TypeError("%s() got an unexpected keyword argument %r" % (ifn.qualname, next(iter(kwargs))))
        return loc

    def call(self, ifn, args, kwargs):
        w = self.w
        full = ifn.fullname
        con = w.contracts.get(full) if w.use_contracts else None
        if con is not None:
            if w.target == full and not w.target_entered:
                w.target_entered = True
            elif con.use_stub(w.ctx, *args, **kwargs):
                return con.stub(w, ifn, args, kwargs)
        loc = self.bind_args(ifn, args, kwargs)
        fr = Frame("function", ifn.module, ifn.static, ifn.local_names, ifn.gl, ifn.nl, ifn,
                   f_back=w.frames[-1] if w.frames else None)
        fr.locals.update(loc)
        fr.cls = ifn.cls_holder[0] if ifn.cls_holder else None
        if len(w.frames) > w.max_depth:
            raise RecursionError("maximum interpreted recursion depth exceeded")
        w.frames.append(fr)
        try:
            if isinstance(ifn.node, ast.Lambda):
                return self.ev(ifn.node.body, fr)
            if ifn.is_gen:
                return self._run_generator(ifn, fr)
            try:
                self.exec_block(ifn.node.body, fr)
            except _Return as r:
                return r.v
            return None
        finally:
            w.frames.pop()

    def _run_generator(self, ifn, fr):
        # generators are run eagerly and their yields collected (no coroutine use in scope)
        out = []
        fr.yields = out
        try:
            self.exec_block(ifn.node.body, fr)
        except _Return:
            pass
        return iter(out)

    # -- expressions -------------------------------------------------------------
    def ev(self, n, fr):
        m = getattr(self, "e_" + type(n).__name__, None)
        if m is None:
            raise Unsupported("expression %s at %s:%s" % (type(n).__name__, fr.module.__name__, getattr(n, "lineno", "?")))
        return m(n, fr)

    def e_Constant(self, n, fr):
        return n.value

    def e_Name(self, n, fr):
        return self._lookup(n.id, fr)

    def e_Attribute(self, n, fr):
        return getattr(self.ev(n.value, fr), n.attr)

    def e_Tuple(self, n, fr):
        return tuple(self._elts(n.elts, fr))

    def e_List(self, n, fr):
        return self._elts(n.elts, fr)

    def e_Set(self, n, fr):
        return set(self._elts(n.elts, fr))

    def _elts(self, elts, fr):
        out = []
        for e in elts:
            if isinstance(e, ast.Starred):
                out.extend(self.ev(e.value, fr))
            else:
                out.append(self.ev(e, fr))
        return out

    def e_Dict(self, n, fr):
        d = {}
        for k, v in zip(n.keys, n.values):
            if k is None:
                d.update(self.ev(v, fr))
            else:
                kk = self.ev(k, fr)
                if _is_sym(kk) and isinstance(d, dict):
                    # a literal keyed by a symbolic int: continue as a symbolic map
                    from .symcoll import SymMap
                    m = SymMap.empty("lit")
                    for k0, v0 in d.items():
                        m[k0] = v0
                    d = m
                d[kk] = self.ev(v, fr)
        return d

    def e_JoinedStr(self, n, fr):
        return "".join(str(self.ev(v, fr)) for v in n.values)

    def e_FormattedValue(self, n, fr):
        return format(self.ev(n.value, fr))

    def e_BinOp(self, n, fr):
        l = self.ev(n.left, fr)
        r = self.ev(n.right, fr)
        return _BINOPS[type(n.op)](l, r)

    def e_UnaryOp(self, n, fr):
        v = self.ev(n.operand, fr)
        if isinstance(n.op, ast.Not):
            if isinstance(v, SymBool):
                return sym.liftb(sym.z3.Not(v.b))
            if _is_sym(v):
                return sym.liftb(v.t == 0)
            return not v
        if isinstance(n.op, ast.USub):
            return -v
        if isinstance(n.op, ast.UAdd):
            return +v
        if isinstance(n.op, ast.Invert):
            return ~v
        raise Unsupported("unary op")

    def e_BoolOp(self, n, fr):
        is_and = isinstance(n.op, ast.And)
        v = None
        for i, e in enumerate(n.values):
            v = self.ev(e, fr)
            if i == len(n.values) - 1:
                return v
            t = truth(v)
            if is_and and not t:
                return False if isinstance(v, SymBool) else v
            if (not is_and) and t:
                return True if isinstance(v, SymBool) else v
        return v

    def e_Compare(self, n, fr):
        l = self.ev(n.left, fr)
        res = True
        for i, (op, rn) in enumerate(zip(n.ops, n.comparators)):
            r = self.ev(rn, fr)
            if isinstance(op, ast.In):
                res = self._contains(r, l)
            elif isinstance(op, ast.NotIn):
                c = self._contains(r, l)
                res = self.e_not(c)
            else:
                res = _CMPOPS[type(op)](l, r)
            if i < len(n.ops) - 1:
                if not truth(res):
                    return res
            l = r
        return res

    def e_not(self, c):
        if isinstance(c, SymBool):
            return sym.liftb(sym.z3.Not(c.b))
        return not c

    def _contains(self, container, item):
        h = getattr(container, "sym_contains", None)
        if h is not None:
            return h(item)
        if _is_sym(item) and isinstance(container, (list, tuple, dict, set, range)):
            raise Escape("symbolic membership test in native container")
        return item in container

    def e_IfExp(self, n, fr):
        if truth(self.ev(n.test, fr)):
            return self.ev(n.body, fr)
        return self.ev(n.orelse, fr)

    def e_Lambda(self, n, fr):
        return self.make_function(n, fr, "<lambda>")

    def e_Starred(self, n, fr):
        raise Unsupported("starred expression here")

    def e_NamedExpr(self, n, fr):
        v = self.ev(n.value, fr)
        self._store(n.target.id, v, fr)
        return v

    def e_Yield(self, n, fr):
        f = fr
        while f is not None and not hasattr(f, "yields"):
            f = f.static
        if f is None:
            raise Unsupported("yield outside eager generator")
        f.yields.append(self.ev(n.value, fr) if n.value is not None else None)
        return None

    def ev_index(self, sl, fr, obj):
        if isinstance(sl, ast.Slice):
            lo = self.ev(sl.lower, fr) if sl.lower is not None else None
            hi = self.ev(sl.upper, fr) if sl.upper is not None else None
            stp = self.ev(sl.step, fr) if sl.step is not None else None
            for x in (lo, hi, stp):
                if _is_sym(x):
                    raise Escape("symbolic slice bound")
            return slice(lo, hi, stp)
        idx = self.ev(sl, fr)
        if _is_sym(idx) and isinstance(obj, (list, tuple, str, bytes, range)):
            raise Escape("symbolic index into native sequence")
        return idx

    def e_Subscript(self, n, fr):
        obj = self.ev(n.value, fr)
        return obj[self.ev_index(n.slice, fr, obj)]

    def e_Slice(self, n, fr):
        return self.ev_index(n, fr, None)

    def e_Call(self, n, fr):
        # zero-argument super()
        if isinstance(n.func, ast.Name) and n.func.id == "super" and not n.args and not n.keywords:
            f = fr
            while f is not None and f.kind != "function":
                f = f.static
            if f is None or f.cls is None:
                raise RuntimeError("super(): no arguments")
            first = f.ifn.node.args.args[0].arg
            return super(f.cls, f.locals[first])
        fn = self.ev(n.func, fr)
        args = self._elts(n.args, fr)
        fr.f_lineno = n.lineno
        kwargs = {}
        for k in n.keywords:
            if k.arg is None:
                kwargs.update(self.ev(k.value, fr))
            else:
                kwargs[k.arg] = self.ev(k.value, fr)
        if fn is isinstance or fn is issubclass:
            return fn(args[0], _unproxy(args[1]))
        if fn is builtins.type and len(args) == 1 and _is_sym(args[0]):
            return bool if isinstance(args[0], SymBool) else int
        if getattr(fn, "__name__", "") == "join" and isinstance(getattr(fn, "__self__", None), (bytes, bytearray)) and len(args) == 1:
            parts = list(args[0])
            if any(isinstance(e, SymBytes) for e in parts):
                # sep.join(parts) with symbolic byte strings among the parts
                sep, out = list(fn.__self__), []
                for i, e in enumerate(parts):
                    ee = SymBytes._elems_of(e)
                    if ee is None:
                        raise TypeError("sequence item %d: expected a bytes-like object, %s found" % (i, type(e).__name__))
                    out += (sep if i else []) + ee
                return SymBytes(out)
            return fn(parts)
        if fn is locals:
            return fr.f_locals
        if fn is globals:
            return fr.f_globals
        if getattr(fn, "__module__", None) == "math" and any(isinstance(x, (sym.SymInt, sym.SymBool)) for x in args):
            raise Unsupported("math.%s of a symbolic integer (floating point is outside the encoding)" % getattr(fn, "__name__", "?"))
        return fn(*args, **kwargs)

    # comprehensions
    def _comp_frame(self, n, fr):
        names = set()
        for g in n.generators:
            for t in ast.walk(g.target):
                if isinstance(t, ast.Name):
                    names.add(t.id)
        cf = Frame("comp", fr.module, fr if fr.kind != "module" else None, names, ifn=None, f_back=fr.f_back)
        if fr.kind == "class":
            cf.static = fr.static
        cf.cls = fr.cls
        cf.ifn = fr.ifn
        return cf

    def _comp_iter(self, n, gens, fr, cf, emit, first_iter=None):
        g = gens[0]
        it = first_iter if first_iter is not None else self.ev(g.iter, cf)
        for x in it:
            self.assign(g.target, x, cf)
            ok = True
            for c in g.ifs:
                if not truth(self.ev(c, cf)):
                    ok = False
                    break
            if not ok:
                continue
            if len(gens) > 1:
                self._comp_iter(n, gens[1:], fr, cf, emit)
            else:
                emit(cf)

    def e_ListComp(self, n, fr):
        out = []
        first = self.ev(n.generators[0].iter, fr)
        h = getattr(first, "sym_listcomp", None)
        if h is not None:
            return h(self, n, fr)
        cf = self._comp_frame(n, fr)
        self._comp_iter(n, n.generators, fr, cf, lambda c: out.append(self.ev(n.elt, c)), first)
        return out

    def e_SetComp(self, n, fr):
        return set(self.e_ListComp(n, fr))

    def e_GeneratorExp(self, n, fr):
        return iter(self.e_ListComp(n, fr))

    def e_DictComp(self, n, fr):
        first = self.ev(n.generators[0].iter, fr)
        h = getattr(first, "sym_dictcomp", None)
        if h is not None:
            return h(self, n, fr)
        out = {}
        cf = self._comp_frame(n, fr)

        def emit(c):
            k = self.ev(n.key, c)
            out[k] = self.ev(n.value, c)
        self._comp_iter(n, n.generators, fr, cf, emit, first)
        return out


def call_function(world, fn, *args, **kwargs):
    """Call an interpreted function object (wrapper) from the harness."""
    return fn(*args, **kwargs)
