"""pyvc.native -- replay of a refuted obligation against the REAL code.

Runs in a subprocess of the tooling interpreter with /repo on sys.path: the
real pysnark modules are executed by CPython itself (not by pyvc's interpreter)
with `pysnark.snarkjsbackend` pre-imported as the recording backend (the
library's own selection mechanism).  The sidecar contract's `setup` builds the
operands from the solver's countermodel through a native twin of the
verification context, the real function is called, and the failed clause is
re-evaluated on the concrete result:

  V/R/E/G/N/C clauses  one run on the model's operand values;
  S clauses            an honest run and a forged run: in the forged run every
                       witness the function under contract allocates itself
                       (not through a contracted callee) is overwritten by the
                       model's adversarial value, callees recompute their own
                       witnesses from the forged values; the violation is
                       confirmed only if EVERY recorded constraint then holds
                       mod p and the clause is false.
"""
import json
import os
import sys
import types


def main():
    req = json.load(open(sys.argv[1]))
    root = req["root"]
    sys.path.insert(0, root)
    sys.path.insert(0, req["repo"])
    import pysnark.snarkjsbackend as be          # noqa: selects the recorder
    import pysnark.runtime as rt
    import atexit
    atexit._clear()            # no proving step at interpreter exit of the replay process
    import z3
    from pyvc import sym, contract as ct
    import contracts  # noqa
    import pysnark.boolean, pysnark.fixedpoint, pysnark.branching, pysnark.array  # noqa

    K = ct.REGISTRY[req["function"]]
    cfg = req["cfg"]
    # backend-layer contracts talk about other real modules of the repository: import them too
    import importlib
    for mname in tuple(getattr(K, "modules", ())) + tuple(getattr(K, "pre_import", ())):
        if mname in sys.modules or not mname.startswith("pysnark"):
            continue
        try:
            importlib.import_module(mname)
        except ImportError:
            if "flatbuffers" not in sys.modules:
                # flatbuffers is absent in this sandbox; only its presence matters to the code replayed here
                fb = types.ModuleType("flatbuffers")
                fb.compat = types.ModuleType("flatbuffers.compat")
                fb.compat.import_numpy = lambda: None
                fb.Builder = type("Builder", (), {})
                sys.modules["flatbuffers"] = fb
                sys.modules["flatbuffers.compat"] = fb.compat
                try:
                    importlib.import_module(mname)
                except Exception:
                    pass
    model = req.get("model") or {}
    clause = req["clause"]
    p = be.snarkjsp

    class NPath:
        """Concrete stand-in for sym.Path: nothing to decide, nothing to assume."""
        def __init__(self):
            self.p = p
            self._imul, self._fmul, self._idiv = {}, {}, {}
            self.assumed_false = []
            import itertools
            self.fresh_ctr = itertools.count()

        def axiom(self, f):
            pass

        def assume(self, f):
            f = z3.simplify(sym.formula(f))
            if z3.is_false(f):
                self.assumed_false.append(str(f))

        def decide(self, c):
            c = z3.simplify(c)
            if z3.is_true(c):
                return True
            if z3.is_false(c):
                return False
            raise RuntimeError("non-concrete decision in native replay: %s" % c)

        def fresh(self, name, sort="int"):
            return z3.Int("%s!n%d" % (name, next(self.fresh_ctr)))

        def hyps(self):
            return []

    sym.set_path(NPath())

    def lc_of(x):
        l = x.lc
        while not isinstance(l, be.LinearCombination):
            l = l.lc
        return l

    class NGhost:
        def __init__(self):
            self.p = p
            self.publics = []
            self.opnds = []
            self.assign = None

        def values(self):
            if self.assign is not None:
                return self.assign
            return (list(be.pubvals), list(be.privvals))

        def ev(self, lc, vals=None):
            pub, priv = vals or self.values()
            s = 0
            for k, cf in lc.lc.items():
                v = 1 if k == 0 else (pub[k - 1] if k > 0 else priv[-k - 1])
                s += cf * v
            return s

        def ev_a(self, lc):
            return z3.IntVal(self.ev(lc) % p)

        def ev_h(self, lc):
            return z3.IntVal(self.ev(lc, self.honest_vals) if getattr(self, "honest_vals", None) else self.ev(lc))

        def fieldinverse(self, v):
            return be.fieldinverse(int(v))

        def counts(self, start=0):
            return (len(be.pubvals) - self.n0[0], len(be.privvals) - self.n0[1], len(be.constraints) - self.n0[2])

        @property
        def trace(self):
            out = []
            from pyvc import ghost as gh
            for i in range(self.n0[0], len(be.pubvals)):
                out.append(gh.Alloc(gh.GVar(i, "pub", z3.IntVal(be.pubvals[i]), z3.IntVal(be.pubvals[i] % p), "pub"), True))
            return out

    g = NGhost()

    class _PreFs(dict):
        """files a contract's setup puts into the working directory BEFORE the call: written for real"""
        def __setitem__(self, name, records):
            data = b"".join(r for r in records if isinstance(r, (bytes, bytearray)))
            with open(name, "wb") as f_:
                f_.write(data)
            preseeded[name] = data
            dict.__setitem__(self, name, records)

    preseeded = {}

    class NCtx:
        def __init__(self):
            self.g = g
            self.p = p
            self.cfg = cfg
            self.w = types.SimpleNamespace(modules=sys.modules, import_module=importlib.import_module, environ=os.environ,
                                           loop_hooks={}, use_contracts=False, stdout=[], fs=_PreFs(), stale_tail={})
            self.honest_value = {}
            self.entry = None

        @property
        def rt(self):
            return rt

        @property
        def LinComb(self):
            return rt.LinComb

        @property
        def LinCombBool(self):
            return pysnark.boolean.LinCombBool

        @property
        def LinCombFxp(self):
            return pysnark.fixedpoint.LinCombFxp

        @property
        def ie(self):
            return bool(rt._ignore_errors)

        @property
        def guard(self):
            return rt.guard

        @property
        def bitlength(self):
            return rt.bitlength

        def is_guard(self):
            return z3.BoolVal(rt.guard is None or rt.guard.value == 1)

        def snapshot(self):
            return dict(ie=rt._ignore_errors, guard=rt.guard, ONE=rt.LinComb.ONE,
                        num_constraints=rt.num_constraints, bitlength=rt.bitlength)

        def v(self, x):
            if id(x) in self.honest_value:
                return z3.IntVal(self.honest_value[id(x)])
            if isinstance(x, int):
                return z3.IntVal(x)
            if hasattr(x, "value"):
                return z3.IntVal(x.value)
            return self.v(x.lc)

        def lc(self, x):
            return lc_of(x)

        def eva(self, x):
            return g.ev_a(lc_of(x))

        def evh(self, x):
            return g.ev_h(lc_of(x))

        def inv(self, x):
            return z3.simplify((self.v(x) - self.evh(x)) % p == 0)

        def tied(self, x):
            return z3.simplify(self.eva(x) == self.v(x) % p)

        def _opnd(self, name):
            h = int(model.get("s_" + name, 0))
            t = model.get("t_" + name)
            if t is None:
                t = next((v for k, v in model.items() if k.startswith("t_" + name + "!")), None)
            if state["active"] and t is not None and int(t) % p != h % p:
                # forged run: the operand's WIRE carries the adversary's value, the Python-side value stays honest
                return rt.LinComb(h, be.privval(int(t)))
            return rt.PrivVal(h)

        def operand(self, name, kind="priv", tie=True):
            return self._opnd(name)

        def operand_bool(self, name, tie=True):
            return pysnark.boolean.LinCombBool(self._opnd(name), False)

        def public_int(self, name):
            return int(model.get("k_" + name, 0))

        def mk_lincomb(self, value, lc):
            return rt.LinComb(value, lc)

        def client(self, src, **bindings):
            ns = dict(bindings)
            exec(compile(src, "<client>", "exec"), ns)
            return ns["prog"]

        def mk_bool(self, lincomb):
            return pysnark.boolean.LinCombBool(lincomb, False)

        def mk_fxp(self, lincomb):
            return pysnark.fixedpoint.LinCombFxp(lincomb, False)

    c = NCtx()
    # SymInt(z3.Int("s_v")) style operands in setup(): give z3.Int a concrete twin
    real_Int = z3.Int

    def concrete_symint(t):
        nm = str(t)
        return int(model.get(nm, 0))
    import contracts.common as cm
    for modname in list(sys.modules):
        if modname.startswith("contracts."):
            m = sys.modules[modname]
            if hasattr(m, "SymInt"):
                m.SymInt = lambda t: concrete_symint(t)
            if hasattr(m, "SymBool"):
                m.SymBool = lambda t: bool(model.get(str(t), False))

    out = dict(function=K.name, cfg=cfg, clause=clause, runs=[])

    def reset():
        del be.pubvals[:]
        del be.privvals[:]
        del be.constraints[:]
        rt.guard = None
        rt._ignore_errors = False
        rt.LinComb.ONE = rt.LinComb.ONE_SAFE
        rt.num_constraints = 0

    def all_constraints(vals=None):
        bad = []
        for i, (A, B, C) in enumerate(be.constraints):
            if (g.ev(A, vals) * g.ev(B, vals) - g.ev(C, vals)) % p != 0:
                bad.append(i)
        return bad

    def flatten(r):
        if isinstance(r, (list, tuple)):
            o = []
            for x in r:
                o += flatten(x)
            return o
        return [r]

    def show(r):
        if isinstance(r, (list, tuple)):
            return [show(x) for x in r]
        try:
            if hasattr(r, "value"):
                return {"value": r.value}
            if hasattr(r, "lc") and hasattr(r.lc, "value"):
                return {"value": r.lc.value, "type": type(r).__name__}
        except Exception:  # noqa  (objects with a custom __getattr__, e.g. BranchingValues)
            pass
        try:
            return repr(r)
        except Exception:  # noqa
            return "<%s>" % type(r).__name__

    # --- own-allocation forging -------------------------------------------------------
    forge = req.get("forge")
    state = dict(active=False, k=0, target_seen=False)

    def is_own():
        """True when no frame of a contracted callee (other than the target's first activation)
        lies between the allocation and the target function."""
        f = sys._getframe(2)
        first_target = None
        chain = []
        while f is not None:
            co = f.f_code
            mod = f.f_globals.get("__name__", "")
            full = mod + ":" + getattr(co, "co_qualname", co.co_name)
            chain.append((full, f))
            f = f.f_back
        # outermost activation of the target
        idx = None
        for i, (full, fr) in enumerate(chain):
            if full == K.name:
                idx = i
        if idx is None:
            return False
        for full, fr in chain[:idx]:
            K2 = ct.REGISTRY.get(full)
            if K2 is None:
                continue
            co = fr.f_code
            names = co.co_varnames[:co.co_argcount]
            try:
                a = [fr.f_locals[n] for n in names]
                if K2.use_stub(c, *a):
                    return False
            except Exception:
                return False
        return True

    orig_privval = be.privval

    def privval_hook(val):
        return orig_privval(val)

    def make_alloc_hook(orig, is_privval=False):
        def hooked(val, *rest, **kw):
            if state["active"] and forge is not None and is_own():
                k = state["k"]
                state["k"] += 1
                if k < len(forge) and forge[k] is not None:
                    if state.get("wire_only") and is_privval:
                        # second attempt (the value-forged run tripped a run-time check of the honest side): the
                        # Python-side value stays honest, only the recorded witness carries the adversary's value
                        r = orig(val, *rest, **kw)
                        be.privvals[-1] = int(forge[k])
                        return r
                    val = int(forge[k])
            return orig(val, *rest, **kw)
        return hooked

    if forge is not None:
        # allocation sites: PrivVal itself and the contracted callees that merely allocate a witness
        sites = [(rt, "PrivVal")]
        for K2 in ct.REGISTRY.values():
            if K2.witness_args and ":" in K2.name and "." not in K2.name.split(":")[1] and "#" not in K2.name:
                mname, fname = K2.name.split(":")
                if mname in sys.modules and fname != "PrivVal" and hasattr(sys.modules[mname], fname) and not fname.startswith("Pub"):
                    sites.append((sys.modules[mname], fname))
        for owner, fname in sites:
            orig_f = getattr(owner, fname)
            hooked = make_alloc_hook(orig_f, is_privval=(owner is rt and fname == "PrivVal"))
            for m in list(sys.modules.values()):
                if m is not None and getattr(m, "__name__", "").startswith("pysnark") and getattr(m, fname, None) is orig_f:
                    setattr(m, fname, hooked)

    def run(forging):
        reset()
        if forging:
            pass
        sym.cur().assumed_false = []
        state.update(active=forging, k=0)
        fn, args, kwargs = K.setup(c, cfg)
        rec = dict(forged=forging)
        if cfg.get("_history"):
            from pyvc import history as _hist
            rec["history"] = cfg["_history"]
            rec["history_applies"] = _hist.prelude(c, cfg["_history"], fn, args, kwargs)
            rec["constraints_of_earlier_call"] = len(be.constraints)
        c.entry = c.snapshot()
        try:
            c.call_start = len(g.trace)
        except Exception:  # noqa
            c.call_start = 0
        g.n0 = (len(be.pubvals), len(be.privvals), len(be.constraints))
        watched = []

        def watch(x, depth=0):
            if depth > 4:
                return
            if isinstance(x, (list, tuple)):
                for y in x:
                    watch(y, depth + 1)
            elif isinstance(x, dict):
                for y in x.values():
                    watch(y, depth + 1)
            elif hasattr(x, "arr") and isinstance(getattr(x, "arr", None), list):
                watch(x.arr, depth + 1)
            elif hasattr(x, "lc") and not isinstance(x, (int, str)):
                try:
                    L = lc_of(x)
                    watched.append((x, getattr(x, "value", None), getattr(x, "lc", None), dict(L.lc)))
                except Exception:
                    pass
        watch(list(args) + list(kwargs.values()))
        for nm_ in ("ZERO", "ONE", "ONE_SAFE"):
            watch(getattr(rt.LinComb, nm_))
        if forging:
            # the adversary is not bound by the library's run-time checks: only the recorded
            # constraints decide (they are re-evaluated independently below)
            rt._ignore_errors = True
        class _ErrRec:
            def write(self_, s):
                if s.strip():
                    c.w.stdout.append(("<stderr>", (s,)))
                return len(s)

            def flush(self_):
                pass
        _real_err = sys.stderr
        sys.stderr = _ErrRec()
        try:
            r = fn(*args, **kwargs)
            rec["outcome"] = "return"
            rec["result"] = show(r)
        except BaseException as e:  # noqa
            r = None
            rec["outcome"] = "raise"
            rec["exception"] = type(e).__name__
            rec["message"] = str(e)[:200]
            rec["exc_obj"] = e
            import traceback as _tb
            rec["traceback_tail"] = "".join(_tb.format_exception(type(e), e, e.__traceback__))[-700:]
        sys.stderr = _real_err
        state["active"] = False
        # files the real code wrote into the scratch cwd, as the contract's ghost disk
        c.w.fs = {}
        c.w.io_events = []
        c.w.stale_tail = {}
        for fn_ in os.listdir("."):
            if os.path.isfile(fn_) and fn_ not in ("req.json", "out.json"):
                data_ = open(fn_, "rb").read()
                c.w.fs[fn_] = [data_]
                c.w.io_events.append(("close", fn_))
                pre_ = preseeded.get(fn_)
                if pre_ and len(data_) >= len(pre_) and data_.endswith(pre_[-16:]):
                    c.w.stale_tail[fn_] = True          # the earlier file's tail is still there
        rec["files"] = {k: len(v[0]) for k, v in c.w.fs.items()}
        mutated = []
        for o, val, lc, coefs in watched:
            if getattr(o, "value", None) != val or getattr(o, "lc", None) is not lc:
                mutated.append(type(o).__name__)
            else:
                try:
                    if dict(lc_of(o).lc) != coefs:
                        mutated.append(type(o).__name__ + ".lc")
                except Exception:
                    pass
        rec["operands_mutated_in_place"] = mutated
        try:
            rec["unsatisfied_constraints"] = all_constraints()
        except Exception as e_:  # noqa  (layer-specific traces may not be evaluable)
            rec["unsatisfied_constraints"] = []
            rec["constraint_eval_error"] = str(e_)[:100]
        return_early = None
        rec["n_constraints"] = len(be.constraints) - g.n0[2]
        rec["counts"] = list(g.counts())
        rec["model_violates_assumption"] = list(sym.cur().assumed_false)
        return r, args, kwargs, rec

    def evaluate(r, args, kwargs, rec):
        """Re-evaluate the failed clause on the concrete run.  Returns True/False/None."""
        base = clause.split("[")[0]
        rt_now = (rt._ignore_errors, rt.guard, rt.LinComb.ONE, rt.bitlength)
        e = c.entry
        rt._ignore_errors, rt.guard, rt.LinComb.ONE, rt.bitlength = e["ie"], e["guard"], e["ONE"], e["bitlength"]
        c.now = dict(ie=rt_now[0], guard=rt_now[1], ONE=rt_now[2])
        try:
            if clause.endswith("@raise"):
                if rec["outcome"] != "raise":
                    return None
                pe = K.post_exc(c, rec["exc_obj"], *args, **kwargs)
                val = pe.get(clause[:-len("@raise")])
                if val is None:
                    return None
                f = z3.simplify(sym.formula(val))
                return True if z3.is_true(f) else (False if z3.is_false(f) else None)
            if base.startswith("R.") or base.startswith("G."):
                raises = K.raises(c, *args, **kwargs)
                if base == "G.inert":
                    return rec["outcome"] != "raise"
                if rec["outcome"] == "raise":
                    conds = [cond for exc, cond in raises if isinstance(rec["exc_obj"], exc)]
                    return any(z3.is_true(z3.simplify(sym.formula(cd))) for cd in conds)
                return not any(z3.is_true(z3.simplify(sym.formula(cond))) for exc, cond in raises)
            if rec["outcome"] == "raise":
                return None
            if base == "F.operands_not_mutated":
                return not rec["operands_mutated_in_place"]
            if base == "C.sat_h":
                return not rec["unsatisfied_constraints"]
            if base == "N.counts":
                exp = K.counts(c, *args, **kwargs)
                return exp is None or list(exp) == rec["counts"]
            if base == "V.result_shape":
                # "the postcondition can be evaluated on what the call returned": false iff it cannot, here as there
                try:
                    K.post(c, r, *args, **kwargs)
                    return True
                except Exception as pe:  # noqa
                    rec["postcondition_not_evaluable"] = "%s: %s" % (type(pe).__name__, str(pe)[:160])
                    return False
            post = K.post(c, r, *args, **kwargs)
            if clause not in post:
                return None
            val = post[clause]
            if isinstance(val, bool):
                return val
            f = z3.simplify(sym.formula(val))
            if z3.is_true(f):
                return True
            if z3.is_false(f):
                return False
            return None
        finally:
            rt._ignore_errors, rt.guard, rt.LinComb.ONE, rt.bitlength = rt_now

    confirmed = False
    try:
        if clause.startswith(("S.", "E.")) and forge is not None:
            rH, aH, kH, recH = run(False)
            honest_vals = (list(be.pubvals), list(be.privvals))
            hflat = flatten(rH) if recH["outcome"] == "return" else []
            recH.pop("exc_obj", None)
            out["runs"].append(recH)
            rF, aF, kF, recF = run(True)
            if recF["outcome"] == "raise" and recH["outcome"] == "return":
                recF.pop("exc_obj", None)
                recF["note"] = "forged values on the Python side trip a run-time check; retried with the forged values on the wires only"
                out["runs"].append(recF)
                state["wire_only"] = True
                try:
                    rF, aF, kF, recF = run(True)
                finally:
                    state["wire_only"] = False
                recF["forged"] = "wires only"
            g.honest_vals = None
            c.honest_value = {}
            if recF["outcome"] == "return" and len(flatten(rF)) == len(hflat):
                for of, oh in zip(flatten(rF), hflat):
                    hv = oh.value if hasattr(oh, "value") else (oh.lc.value if hasattr(oh, "lc") else None)
                    if hv is not None:
                        c.honest_value[id(of)] = hv
                        if hasattr(of, "lc") and not isinstance(of.lc, be.LinearCombination):
                            c.honest_value[id(of.lc)] = hv
            holds = evaluate(rF, aF, kF, recF)
            recF.pop("exc_obj", None)
            recF["clause_holds"] = holds
            out["runs"].append(recF)
            confirmed = (holds is False) and not recF["unsatisfied_constraints"] and not recF["model_violates_assumption"]
            out["forged_witness_satisfies_all_constraints"] = not recF["unsatisfied_constraints"]
        elif clause.split("[")[0] in ("T.shape", "T.cross_config", "T.public_coefficients"):
            sigs = []
            for mdl in req.get("models") or [model]:
                model.clear()
                model.update(mdl)
                r1, a1, k1, rec1 = run(False)
                rec1.pop("exc_obj", None)
                canon = [[sorted((k, v % p) for k, v in L.lc.items() if v % p) for L in con] for con in be.constraints[g.n0[2]:]]
                res_sig = []
                if rec1["outcome"] == "return":
                    for x in flatten(r1):
                        try:
                            res_sig.append(sorted((k, v % p) for k, v in lc_of(x).lc.items() if v % p))
                        except Exception:
                            res_sig.append(None)
                sigs.append(dict(counts=rec1["counts"], constraints=canon, outcome=rec1["outcome"], result_wires=res_sig))
                out["runs"].append(rec1)
            out["trace_signatures_equal"] = all(s == sigs[0] for s in sigs)
            confirmed = len(sigs) > 1 and not out["trace_signatures_equal"] and all(s["outcome"] == "return" for s in sigs)
        else:
            r1, a1, k1, rec1 = run(False)
            holds = evaluate(r1, a1, k1, rec1)
            rec1.pop("exc_obj", None)
            rec1["clause_holds"] = holds
            out["runs"].append(rec1)
            confirmed = holds is False and not rec1["model_violates_assumption"]
    except BaseException as e:  # noqa
        import traceback
        out["replay_error"] = "%s: %s\n%s" % (type(e).__name__, e, traceback.format_exc()[-1500:])
    out["confirmed"] = bool(confirmed)
    json.dump(out, open(sys.argv[2], "w"), indent=1, default=str)


if __name__ == "__main__":
    main()
