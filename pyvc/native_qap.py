"""pyvc.native_qap -- replay of a refuted C12 obligation against the real qaptools backend.

Runs in a subprocess of the tooling interpreter, cwd = a scratch directory, PYSNARK_BACKEND=qaptools.  CPython
executes the real pysnark.runtime / pysnark.qaptools modules; the external qaptools executables are replaced by a
failing `subprocess.call/run` (the property's observation point: the text files after tracing).  The contract's own
client program is run with the operand values of the solver's countermodel, and the contract's own postcondition is
re-evaluated on the files actually written (every line one record of whitespace-separated tokens)."""
import importlib
import json
import os
import sys
import types
import weakref


def main():
    req = json.load(open(sys.argv[1]))
    sys.path.insert(0, req["root"])
    sys.path.insert(0, req["repo"])
    kind = req.get("kind", "qap")
    if kind == "qap":
        os.environ["PYSNARK_BACKEND"] = "qaptools"
    import subprocess
    subprocess.call = lambda *a, **k: 1
    subprocess.run = lambda *a, **k: types.SimpleNamespace(returncode=1, stdout=b"", stderr=b"")
    import builtins
    real_open = builtins.open
    tracked = []

    def topen(*a, **k):
        f = real_open(*a, **k)
        try:
            tracked.append(weakref.ref(f))
        except TypeError:
            pass
        return f
    builtins.open = topen
    recorded = {}            # zkif: file name -> objects written; events
    events = []
    if kind == "zkif":
        # flatbuffers is absent: the ASSUMED Builder contract (contracts/zkif_c.GBuilder) stands in for the library,
        # and what the real code hands to file.write() is recorded instead of encoded
        class RecFile:
            def __init__(self, name):
                self.name, self.closed = name, False
                recorded[name] = []

            def write(self, x):
                recorded[self.name].append(x)

            def flush(self):
                pass

            def close(self):
                self.closed = True
                events.append(("close", self.name))

            def __enter__(self):
                return self

            def __exit__(self, *a):
                self.close()

        def zopen(name, mode="r", *a, **k):
            if isinstance(name, str) and name.endswith(".zkif") and "w" in mode:
                return RecFile(os.path.basename(name))
            return topen(name, mode, *a, **k)
        builtins.open = zopen
    import atexit
    import z3
    from pyvc import sym, contract as ct
    import contracts  # noqa
    from contracts import qaptools_c, zkif_c
    K = ct.REGISTRY[req["function"]]
    if kind == "zkif":
        fbw = types.SimpleNamespace(module_overrides={}, environ={}, builtins={}, loadable=None)
        try:
            zkif_c._fb_world(fbw)
        except Exception:
            pass
        for k, v in fbw.module_overrides.items():
            if k.startswith("flatbuffers"):
                sys.modules[k] = v
        for mname in tuple(getattr(K, "pre_import", ())) + (K.module,):
            importlib.import_module(mname)
    cfg, clause, model = req["cfg"], req["clause"], req.get("model") or {}
    p = K.prime

    class NPath:
        def __init__(self):
            self.p = p
            self._imul, self._fmul, self._idiv = {}, {}, {}
            self.assumed_false = []

        def axiom(self, f):
            pass

        def assume(self, f):
            pass

        def fresh(self, name, sort="int", define=None):
            return z3.Int(name + "!n")

        def hyps(self):
            return []
    sym.set_path(NPath())
    class NSym(int):
        """concrete twin of SymInt(z3.Int(name)) in the contracts' setup: the model's value, a plain int"""
        def __new__(cls, t):
            return int(model.get(str(t), 0))
    qaptools_c.SymInt = NSym
    zkif_c.SymInt = NSym
    from contracts import backend_c
    backend_c.SymInt = NSym
    if kind == "qap":
        importlib.import_module("pysnark.runtime")      # selects the qaptools backend through PYSNARK_BACKEND

    def live(name=None):
        out = []
        for r in tracked:
            f = r()
            if f is not None and not f.closed and (name is None or os.path.basename(str(getattr(f, "name", ""))) == name):
                out.append(f)
        return out

    def disk_lines(name):
        try:
            return real_open(name).read().splitlines(True)
        except OSError:
            return []

    measure = clause.startswith(("F.equations_flushed_before_split", "F.wires_flushed_before_split", "F.io_values_flushed_before_split"))

    class NWorld:
        modules = sys.modules
        use_contracts = False
        open_files = ()

        def import_module(self, n):
            return importlib.import_module(n)

        io_events = events

        @property
        def fs(self):
            if kind == "zkif":
                return recorded
            out = {}
            for n in os.listdir("."):
                if os.path.isfile(n) and n not in ("req.json", "out.json"):
                    out[n] = [("print", (l.rstrip("\n"),)) for l in disk_lines(n)]
            return out

        def read_lines(self, name):
            import gc
            gc.collect()
            return disk_lines(name)

        def unflushed(self, name):
            if not measure:
                return 0          # measuring means flushing, which would hide what the other clauses look at
            n0 = len(disk_lines(name))
            for f in live(name):
                f.flush()
            return len(disk_lines(name)) - n0
    w = NWorld()

    def client(src, **bindings):
        ns = dict(bindings)
        exec(compile(src, "<client>", "exec"), ns)
        return ns["prog"]
    c = types.SimpleNamespace(w=w, g=types.SimpleNamespace(p=p), p=p, cfg=cfg, client=client)
    out = dict(function=K.name, cfg=cfg, clause=clause)
    try:
        fn, args, kwargs = K.setup(c, cfg)
        atexit._clear()
        try:
            r = fn(*args, **kwargs)
            out["outcome"] = "return"
            out["result"] = repr(r)[:200]
        except BaseException as e:  # noqa
            r = None
            exc = e
            out["outcome"] = "raise"
            out["exception"] = type(e).__name__
            out["message"] = str(e)[:200]
        # what a reader sees once the process is over: everything written is on disk
        for f in live():
            try:
                f.flush()
            except Exception:
                pass
        out["files"] = {n: len(disk_lines(n)) for n in sorted(os.listdir(".")) if os.path.isfile(n) and n not in ("req.json", "out.json")}
        base = clause.split("[")[0]
        holds = None
        if base.startswith("R."):
            raises = K.raises(c, *args, **kwargs)
            if out["outcome"] == "raise":
                conds = [cond for ex, cond in raises if isinstance(exc, ex)]
                holds = any(z3.is_true(z3.simplify(sym.formula(cd))) for cd in conds)
            else:
                holds = not any(z3.is_true(z3.simplify(sym.formula(cond))) for ex, cond in raises)
        elif out["outcome"] == "return" or cfg.get("raises_only"):
            post = K.post(c, r, *args, **kwargs)
            val = post.get(clause)
            if val is not None:
                if isinstance(val, bool):
                    holds = val
                else:
                    f = z3.simplify(sym.formula(val))
                    holds = True if z3.is_true(f) else (False if z3.is_false(f) else None)
            out["clauses_false_in_this_run"] = sorted(k for k, v in post.items()
                                                      if (v is False) or (not isinstance(v, bool) and z3.is_false(z3.simplify(sym.formula(v)))))[:20]
        out["clause_holds"] = holds
        out["confirmed"] = holds is False
    except BaseException as e:  # noqa
        import traceback
        out["replay_error"] = "%s: %s\n%s" % (type(e).__name__, e, traceback.format_exc()[-1500:])
        out["confirmed"] = False
    json.dump(out, real_open(sys.argv[2], "w"), indent=1, default=str)


if __name__ == "__main__":
    main()
