"""pyvc.props -- which contracts and which clause groups carry which property."""
from . import contract as ct

GUARDED = ("g0", "g1", "g1ie")

# facet letters generated per property (K = canaries, always on)
FACETS = {
    "C01": "CVK",
    "C02": "SK",
    "C03": "SERK",
    "C04": "VFK",
    "C05": "VRK",
    "C06": "TN",
    "C07": "CSEVRGFK",
    "C08": "VRFSK",
    "C13": "VRFK",
    "C10": "VRFK",
    "C19": "VRFK",
    "C18": "VRFK",
    "C09": "VRSFCTNK",
    "C11": "VRFK",
    "C12": "VRFK",
    "C14": "VRSECK",
    "C15": "VRSECTNK",
    "C16": "VRSEK",
    "C17": "VRSFTNK",
    "C20": "VRSFCTNK",
}


def clause_props(K, clause, cfg):
    """Properties an obligation counts for."""
    mode = cfg.get("mode", "plain")
    if clause.startswith(("pre[", "setup.", "cover.", "canary", "loop.", "frame.")):
        return {"*"} | _ALL
    out = set()
    if clause.startswith("C."):
        out = set(K.cprops)
    elif clause.startswith("S."):
        out = set(K.sprops)
    elif clause.startswith("E."):
        out = set(K.eprops)
    elif clause == "V.inv":
        # value = wire expression on the witness: C04 itself, and the glue of the compositional argument for C01 (every
        # contract ASSUMES it of its operands, so every producer has to establish it of its results)
        out = {"C04"} | (set(K.vprops) - {"C05"}) | ({"C01"} if ("C01" in K.cprops and mode not in ("ie", "g1ie")) else set())
    elif clause.startswith(("V.", "R.")):
        out = set(K.vprops)
        if clause == "V.output_value":
            out = out | {"C04"}      # the public wire the proof speaks about carries the value the program was given
    elif clause.startswith(("T.", "N.")):
        out = set(K.tprops)
    elif clause.startswith("G."):
        out = {"C07"} if K.guard_relevant else set()
    elif clause == "F.operands_not_mutated":
        # no call changes an existing secret object (its value or its wire expression) or a shared constant in place
        out = set(K.fprops) | ({"C04"} if ("C05" in K.vprops or "C14" in K.vprops or "C03" in K.vprops) else set())
        if "C05" in K.vprops:
            out.add("C05")        # an operand changed in place makes every LATER operation on it return a different value
        if "C14" in K.vprops:
            out.add("C14")
    elif clause.startswith("F."):
        out = set(K.fprops)
    if mode in GUARDED and clause[:2] in ("C.", "S.", "E.", "V.", "R.") and K.guard_relevant:
        out = out | {"C07"}
    # C09: the bodies of oblivious branches are arbitrary traced operations executed under a guard; "the emitted
    # constraints are satisfied and independent of which branches were taken" is, per operation, the honest-satisfaction
    # and trace-shape facet of its contract in the guarded modes
    # ... and "ends with the same variable values as the same program with native control flow" is, per operation, its
    # value and raise facet there: a taken branch computes and refuses exactly what unguarded code does
    if mode in GUARDED and clause[:2] in ("C.", "T.", "N.", "V.", "R.") and K.guard_relevant and ("C01" in K.cprops or "C06" in K.tprops):
        out = out | {"C09"}
    # C17: "nothing else becomes public" -- the body of a wrapped function is arbitrary traced code, so every operation
    # must allocate exactly the public values its contract counts (none, except val/PubVal)
    if clause == "N.counts" and "C06" in K.tprops and K.layer == "gadget":
        out = out | {"C17"}
    # ... and "returns the plain values the undecorated function would return": the undecorated function runs Python's
    # arithmetic on plain numbers, the wrapped one the traced operations on secrets, so per operation this is its value
    # and refusal facet (C05 for integers and booleans, C14 for fixed point), with the checks on and no guard
    if clause[:2] in ("V.", "R.") and K.layer == "gadget" and mode == "plain" and ("C05" in K.vprops or "C14" in K.vprops):
        out = out | {"C17"}
    return out


_ALL = {"C%02d" % i for i in range(1, 21)}


def select(prop):
    fac = FACETS.get(prop)
    if fac is None:
        return []
    out = []
    for K in ct.REGISTRY.values():
        ps = set(K.cprops) | set(K.sprops) | set(K.eprops) | set(K.vprops) | set(K.tprops) | set(K.fprops)
        if "C05" in K.vprops or "C14" in K.vprops:
            ps.add("C04")
        if K.guard_relevant:
            ps.add("C07")
        if prop == "C09" and prop not in ps and K.guard_relevant and ("C01" in K.cprops or "C06" in K.tprops):
            out.append((K, "CTNVR"))
            continue
        if prop == "C17" and prop not in ps and K.layer == "gadget" and ("C06" in K.tprops or "C05" in K.vprops or "C14" in K.vprops):
            out.append((K, ("N" if "C06" in K.tprops else "") + ("VR" if ("C05" in K.vprops or "C14" in K.vprops) else "")))
            continue
        if prop in ps:
            out.append((K, getattr(K, "facets", None) or fac))
    return out


def cfg_relevant(prop, K, cfg):
    if prop == "C09" and "C09" not in (set(K.cprops) | set(K.vprops) | set(K.tprops) | set(K.fprops)):
        return cfg.get("mode") in GUARDED
    if prop == "C17" and "C17" not in (set(K.cprops) | set(K.vprops) | set(K.tprops) | set(K.fprops) | set(K.sprops)):
        return cfg.get("mode", "plain") == "plain"
    if prop == "C07":
        return cfg.get("mode") in GUARDED or "C07" in K.fprops
    return True


def tgroup(cfg):
    d = {k: v for k, v in cfg.items() if k != "mode"}
    d["guarded"] = cfg.get("mode", "plain") in GUARDED
    return repr(sorted(d.items(), key=lambda kv: kv[0]))


SPECIAL = {}


def _c18_extra(tier):
    from . import exitprobe
    return exitprobe.probes(tier)


# additional obligations that do not come from a function contract
EXTRA = {"C18": _c18_extra}

TRUSTED_BASE = [
    "pyvc AST interpreter + symbolic integer encoding (validated differentially against CPython by ./check selftest; not proved)",
    "z3 5.1 / cvc5 1.0 for `unsat`",
    "abstract backend contract pyvc/ghost.py as meeting point of gadget-layer and backend-layer proofs (C13 proves the concrete backends meet it)",
    "lemma instances used as axioms: F_p has no zero divisors, unit/commutativity/associativity/cancellation of field multiplication, floor-division bit view (L1, L2 of DESIGN.md section 5)",
]

ASSUMPTIONS = [
    "Python semantics as encoded by pyvc (DESIGN.md 2.3): ints unbounded (SMT Int), floor // and %, bit operations through the bit view",
    "structure (widths, operand kinds, list lengths, flag/guard mode) is enumerated per configuration; values are symbolic and unbounded",
    "configuration precondition the code never checks: 2^(bitlength+1) < p",
    "program-level composition of per-call facets (append-only trace, frame clauses) is a pen-and-paper argument (DESIGN.md 2.2)",
    "primality of the field modulus (Miller-Rabin in C13)",
]

PROP_ASSUMPTIONS = {
    "C02": ["adversarial assignment: operand wires tied to their honest values mod p, every auxiliary wire universally quantified",
            "callee soundness facts are used through fresh `sat` booleans per call (modular): a caller sees only callee contracts"],
    "C03": ["operand values canonical (|v| < p/4) in the agreement clauses E.*"],
    "C07": ["operand values canonical (|v| < p/2) in G.inert"],
    "C09": ["bounded in program shape: eight schemas (if, if/else, if/elif/else, nested if, while with 2 iterations, for with max 3, lazy selection, list selection); complete in values and conditions"],
    "C10": ["trace shapes enumerated (0/1/2 constraints, up to 2 public and 3 private values, linear combinations of 0..3 terms); all values symbolic",
            "the informational nLabels field of the r1cs header is not asserted"],
    "C11": ["ASSUMED contract of flatbuffers.Builder (library absent in this sandbox): contracts/zkif_c.py GBuilder; file bytes not decided",
            "trace shapes enumerated; all values symbolic"],
    "C12": ["token-level model of text files (print/flush/close/read); wire and function names contain no blanks",
            "external qaptools executables replaced by failing stubs; truncated-md5 digests assumed collision free",
            "bounded in program shape: two straight-line programs, one sub-circuit called twice, one inconsistent pair of calls"],
    "C13": ["evaluation-level statement follows from the pointwise coefficient clauses by linearity of finite sums (lemma L3, on paper / Lean)",
            "gmpy2 absent: the pure-Python branch of pysnark.gmpy is what runs and what is verified; builtin pow(x, p-2, p) through Fermat's little theorem",
            "libsnark: the C++ binding is absent; the backend's primitives (privval, pubval, zero, one, add_constraint, fieldinverse, get_modulus) are verified at call level against an ASSUMED contract of the binding (contracts/backend_c.py GLib*); the algebra of libsnark.LinearCombination is C++ and not covered"],
    "C14": ["float operands are enumerated concrete values representable at the resolution; error-ignoring mode is out of scope (values unspecified there)"],
    "C15": ["array lengths 1..3 (thorough ..6), 2-D 2x2; single accesses (sequences of accesses follow from whole-array postconditions by composition)"],
    "C16": ["packer schemas enumerated: PackBool, PackIntMod(m) for m in {1,2,5,8,16,100}, a flat and a nested PackList/PackRepeat"],
    "C17": ["argument / result shapes enumerated; the wrapped body is havocked (own events, arbitrary results); what a body computes is covered per traced operation by the value facets of the C05 / C14 contracts (plain mode), composed on paper"],
    "C18": ["ASSUMED environment contract: which of sys.exit / sys.excepthook / atexit callbacks CPython invokes per termination mode; each clause is validated by a subprocess probe of the repository's interpreter on every run (observations, not proofs)"],
    "C19": ["absent third-party dependencies (flatbuffers, libsnark, qapgen) are stubbed: only their presence matters to the selection code",
            "pysnark.nobackend always loads"],
    "C20": ["whole permutation = composition of the 68 per-round clauses (induction over the round index, on paper)",
            "SHA-512 based generator compared with an independent reimplementation on indices 0..31 only (bounded)"],
}

EXPLAIN = {
    "C01": "facet C: every triple emitted on every non-raising path holds on the honest witness mod p (checked state: errors on, or inside a guard)",
    "C02": "facet S: for every adversarial witness satisfying the emitted triples with operands fixed, the result wire equals the honest result / its field spec; boolean results are 0/1",
    "C03": "facets S/E/R on assertions and declarations: enforced relation == run-time relation, same width",
    "C04": "clause V.inv on every function that returns a secret object (value == wire expression on the honest witness mod p) and F.operands_not_mutated (no existing secret object or shared constant is changed in place)",
    "C05": "facets V/R: returned value equals the plain-Python spec, raise <=> documented condition",
    "C06": "facets T/N: event list identical on all non-raising paths and across error/guard modes; coefficients public; counts as specified",
    "C07": "all facets in modes g0/g1 plus G.inert: no value-caused exception under a false guard",
    "C08": "facets V/F on add_guard, restore_guard and the guarded wrapper with a havocked body: state triple restored on every exit, nesting = conjunction",
    "C09": "program schemas over the real API as interpreted client programs vs their native twins; selection with value and list branches; bookkeeping",
    "C10": "the two snarkjs files as ghost byte sequences, read back by a layout written from the iden3 format description",
    "C11": "zkinterface messages at call level (assumed Builder contract), decoded by the slot order of zkinterface.fbs",
    "C12": "qaptools writer + split at token level on client programs: equations satisfied, flush discipline, per-function files, paired blocks",
    "C13": "unbounded pointwise coefficient clauses (loop invariants / map rule) plus loop-free companion configurations; frame; moduli; inverse",
    "C14": "fixed-point operator x operand-kind cells against the scaled-integer spec of the property statement",
    "C15": "secret-index reads/writes: whole-array postconditions, IndexError <=> out of range, out-of-range unprovable, trace independent of the index",
    "C16": "bit decomposition / recomposition at widths different from the global one; packers round-trip and reject",
    "C17": "the @snark wrapper against a havocked body: inputs, outputs, ties, plain results, nothing else public",
    "C18": "code side of the exit hook proved; interpreter termination table assumed and probed",
    "C19": "module-level selection code under a symbolic environment; all environments covered by the explored paths",
    "C20": "per-round Poseidon cut, sponge/padding, parameter binding, ground vectors, subset-sum hash",
}

BOUNDED = {
    "C18": ["37 subprocess probes (17 termination modes x 2 positions + 3 with autoprove off): observations of the real interpreter"],
    "C20": ["SHA512_prng(i) == independent reimplementation for i < 32 (concrete comparison)",
            "4 ground instances of the whole permutation against an independent plain-integer Poseidon and the published vectors"],
}


def FACET_OF_LETTER_SET(prop):
    """clause-name prefixes (before the first dot) generated for a property: its facet letters, plus the generic groups"""
    return set(FACETS[prop]) | {"pre[", "cover", "loop", "frame"}
