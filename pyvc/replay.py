"""pyvc.replay -- from a refuted obligation to a replay on the real code.

Writes /verif/replays/<prop>/<function>__<clause>__<cfg>.json naming the failed
obligation and carrying the solver's output, runs pyvc/native.py in a
subprocess (real CPython executing the real /repo modules, scratch cwd under
/tmp removed afterwards) and appends what the real code did."""
import json
import os
import shutil
import subprocess
import sys
import tempfile

ROOT = os.path.dirname(os.path.dirname(os.path.abspath(__file__)))
REPO = os.environ.get("PYVC_REPO", "/repo")


def _name(fn, ob, cfg):
    clean = lambda s: "".join(ch if ch.isalnum() or ch in "-_" else "_" for ch in str(s))
    return "%s__%s__%s.json" % (clean(fn.split(":")[1]), clean(ob["name"]),
                                "_".join("%s-%s" % (k, clean(v)) for k, v in sorted(cfg.items())))


def run_native(fn, cfg, ob, timeout=120):
    tmp = tempfile.mkdtemp(prefix="pyvc_replay_")
    try:
        req = dict(root=ROOT, repo=REPO, function=fn, cfg=cfg, clause=ob["name"], model=ob.get("model") or {},
                   forge=ob.get("forge"), models=ob.get("models"))
        rq = os.path.join(tmp, "req.json")
        out = os.path.join(tmp, "out.json")
        json.dump(req, open(rq, "w"), default=str)
        env = dict(os.environ)
        env.pop("PYSNARK_BACKEND", None)
        pr = subprocess.run([sys.executable, os.path.join(ROOT, "pyvc", "native.py"), rq, out],
                            cwd=tmp, capture_output=True, text=True, timeout=timeout, env=env)
        if os.path.exists(out):
            res = json.load(open(out))
        else:
            res = dict(confirmed=False, replay_error="native replay produced no output", stderr=pr.stderr[-1500:])
        return res
    except subprocess.TimeoutExpired:
        return dict(confirmed=False, replay_error="native replay timed out")
    finally:
        shutil.rmtree(tmp, ignore_errors=True)


def write_replay(prop, fn, cfg, ob, do_run=True):
    d = os.path.join(ROOT, "replays", prop)
    os.makedirs(d, exist_ok=True)
    path = os.path.join(d, _name(fn, ob, cfg))
    rec = dict(property=prop, function=fn,
               cfg={k: (v if isinstance(v, (int, str, bool, type(None))) else repr(v)) for k, v in cfg.items()},
               failed_obligation=ob["name"], path=ob.get("path"), solver_output=ob, replay=None,
               how_to_rerun="cd /verif && python3-vt -m pyvc.replay " + os.path.relpath(path, ROOT))
    confirmed = False
    if do_run:
        from pyvc import contract as ct
        K = ct.REGISTRY.get(fn)
        if ob.get("backend") == "subprocess-probe":
            # the obligation *is* an observation of the real interpreter running the real code
            res = dict(confirmed=True, observed=(ob.get("model") or {}).get("observed"))
        elif K is not None and hasattr(K, "native_replay"):
            try:
                res = K.native_replay(ob, cfg)
            except Exception as e:  # noqa
                res = dict(confirmed=False, replay_error="%s: %s" % (type(e).__name__, e))
        else:
            res = run_native(fn, cfg, ob)
        if ob["name"] == "setup.completes":
            # confirmed iff CPython, running the real code, raised the same exception before reaching the function
            blob = json.dumps(res, default=str)
            same_exc = bool(ob.get("exc")) and (ob["exc"] + ":" in blob or '"exception": "%s"' % ob["exc"] in blob or ob["exc"] + "(" in blob)
            # ... raised by the repository's code (its files are in the native traceback), not by the replay harness
            in_repo = (REPO.rstrip("/") + "/pysnark") in blob or '"exception": "%s"' % ob.get("exc") in blob
            res = dict(res, confirmed=same_exc and in_repo, expected_exception=ob.get("exc"))
        rec["replay"] = res
        confirmed = bool(res.get("confirmed"))
    rec["confirmed_on_real_code"] = confirmed
    json.dump(rec, open(path, "w"), indent=1, default=str)
    return os.path.relpath(path, ROOT), confirmed


if __name__ == "__main__":
    rec = json.load(open(os.path.join(ROOT, sys.argv[1]) if not os.path.isabs(sys.argv[1]) else sys.argv[1]))
    cfg = rec["cfg"]
    res = run_native(rec["function"], cfg, rec["solver_output"])
    print(json.dumps(res, indent=1, default=str))
    sys.exit(1 if res.get("confirmed") else 0)
