"""pyvc.run -- the check entry point:  ./check <property> [--tier quick|thorough]

Selects the functions under contract that carry the property, generates and
discharges their obligations in a process pool, classifies refutations against
/verif/known_findings.json, replays new refutations on the real code, writes
/verif/evidence/<id>.json and sets the exit code:

  0  every obligation proved (known findings listed as KNOWN-FINDING lines)
  1  an obligation is refuted and not a listed finding: VIOLATION line(s)
  2  undecided only (solver unknown / timeout) -- never reported as a violation
  3  the checker could not run or failed one of its own guards
"""
import argparse
import hashlib
import json
import multiprocessing as mp
import os
import sys
import time
import traceback

ROOT = os.path.dirname(os.path.dirname(os.path.abspath(__file__)))
sys.path.insert(0, ROOT)

from pyvc import verify, contract as ct  # noqa: E402
from pyvc import props as PR  # noqa: E402


def _task(args):
    name, cfg, facets, tier = args
    K = ct.REGISTRY[name]
    tl = os.environ.get("PYVC_TASKLOG")
    if tl:
        with open(tl, "a") as f:
            f.write("start %d %s %r\n" % (os.getpid(), name, cfg))
    t0 = time.time()
    try:
        r = verify.run_config(K, cfg, facets=facets, tier=tier)
        if tl:
            with open(tl, "a") as f:
                f.write("end %d %.1fs %s %r\n" % (os.getpid(), time.time() - t0, name, cfg))
    except BaseException as e:  # noqa
        r = dict(function=name, cfg=verify._cfg_repr(cfg), obligations=[], paths=0, normal_paths=0, raise_paths=0,
                 engine_errors=["worker: %s: %s\n%s" % (type(e).__name__, e, traceback.format_exc()[-1200:])],
                 stubs=[], sig=None, solver_s=0.0, wall_s=0.0)
    r["cfg_raw"] = cfg
    return r


def _child(conn, task):
    try:
        conn.send(_task(task))
    finally:
        conn.close()


def _failed(task, why):
    name, cfg, facets, tier = task
    return dict(function=name, cfg=verify._cfg_repr(cfg), cfg_raw=cfg, obligations=[], paths=0, normal_paths=0, raise_paths=0,
                engine_errors=[why], stubs=[], sig=None, solver_s=0.0, wall_s=0.0)


def run_tasks(tasks, jobs, tier):
    """One fresh forked process per task (verdicts must not depend on what a worker ran before), at most `jobs`
    at a time, each under a hard wall-clock limit: a solver call that ignores its own timeout (observed: z3's
    diophantine module on huge coefficients) is killed and reported as `cannot analyse`, it cannot hang the check."""
    from multiprocessing.connection import wait
    hard_s = float(os.environ.get("PYVC_TASK_HARD_S", "600" if tier == "quick" else "2400"))
    ctx = mp.get_context("fork")
    results = [None] * len(tasks)
    pending = list(enumerate(tasks))[::-1]
    running = {}
    while pending or running:
        while pending and len(running) < jobs:
            i, t = pending.pop()
            rd, wr = ctx.Pipe(duplex=False)
            p = ctx.Process(target=_child, args=(wr, t))
            p.start()
            wr.close()
            running[i] = (p, rd, time.time())
        ready = wait([v[1] for v in running.values()], timeout=1.0)
        for i, (p, rd, t0) in list(running.items()):
            if rd in ready:
                try:
                    results[i] = rd.recv()
                except (EOFError, OSError):
                    results[i] = _failed(tasks[i], "worker process ended without a result")
                rd.close()
                p.join()
                del running[i]
            elif time.time() - t0 > hard_s:
                p.kill()
                p.join()
                rd.close()
                results[i] = _failed(tasks[i], "hard time limit of %.0fs per (function, configuration) exceeded; task killed" % hard_s)
                del running[i]
    return results


def file_hashes():
    out = {}
    base = os.path.join(verify.interp.REPO, "pysnark")
    for dp, dn, fn in os.walk(base):
        for f in fn:
            if f.endswith(".py"):
                p = os.path.join(dp, f)
                out[os.path.relpath(p, verify.interp.REPO)] = hashlib.sha256(open(p, "rb").read()).hexdigest()[:16]
    return out


def load_findings():
    p = os.path.join(ROOT, "known_findings.json")
    if not os.path.exists(p):
        return []
    return json.load(open(p))["findings"]


def match_finding(findings, prop, function, clause, cfg, detail=""):
    base = clause.split("[")[0]
    for f in findings:
        if f.get("status", "known") != "known":
            continue
        if prop is not None and prop not in f["properties"]:
            continue
        ff = f["function"]
        if ff != function and not (ff.endswith("*") and function.startswith(ff[:-1])):
            continue
        if f["clause"] != clause and f["clause"] != base:
            continue
        if "detail_contains" in f and f["detail_contains"] not in str(detail):
            continue
        want = f.get("cfg", {})
        if all(cfg.get(k) == v or (isinstance(v, list) and cfg.get(k) in v) for k, v in want.items()):
            return f
    return None


def main(argv=None):
    ap = argparse.ArgumentParser()
    ap.add_argument("prop")
    ap.add_argument("--tier", default=os.environ.get("VERIF_TIER", "quick"))
    ap.add_argument("--jobs", type=int, default=int(os.environ.get("PYVC_JOBS", "16")))
    ap.add_argument("--only", default=None, help="substring filter on function names (debugging)")
    ap.add_argument("--verbose", "-v", action="store_true")
    ap.add_argument("--no-replay", action="store_true")
    ap.add_argument("--list-open", action="store_true")
    a = ap.parse_args(argv)
    prop = a.prop
    tier = "thorough" if a.tier.startswith("t") else "quick"
    seed = int(os.environ.get("VERIF_SEED", "0"))
    t0 = time.time()

    if prop == "selftest":
        from pyvc import selftest
        return selftest.main(tier, seed)
    if prop == "lemmas":
        # the arithmetic facts the encoding instantiates as axioms (DESIGN.md section 5), re-checked by Lean 4 + Mathlib
        import subprocess
        f = os.path.join(ROOT, "lemmas", "PysnarkLemmas.lean")
        p = subprocess.run(["lean", f], stdout=subprocess.PIPE, stderr=subprocess.STDOUT, timeout=3000)
        out = p.stdout.decode(errors="replace")
        bad = p.returncode != 0 or "error" in out or "sorry" in out
        n = len([l for l in open(f) if l.startswith(("theorem", "lemma"))])
        print(out[-2000:] if bad else "", end="")
        print("lemmas file=%s theorems=%d lean_exit=%d wall=%.1fs exit=%d" % (os.path.relpath(f, ROOT), n, p.returncode, time.time() - t0, 3 if bad else 0))
        return 3 if bad else 0
    handler = PR.SPECIAL.get(prop)
    if handler is not None:
        return handler(prop, tier, seed, a)

    import contracts  # noqa: F401  (registers all sidecar contracts)
    sel = PR.select(prop)
    if a.only:
        sel = [(K, fac) for K, fac in sel if a.only in K.name]
    if not sel:
        print("CHECKER-BROKEN property=%s no function under contract carries this property" % prop)
        return 3
    # configuration self-check: a contract that lists this property for a clause group whose facet letter the property
    # does not generate would have those clauses silently skipped
    skipped = []
    for K, facets in sel:
        for attr, letter in (("cprops", "C"), ("sprops", "S"), ("eprops", "E"), ("tprops", "T"), ("fprops", "F"), ("vprops", "VR")):
            if prop in getattr(K, attr) and not any(l in facets for l in letter) and not any(l in getattr(K, "skip_facets", "") for l in letter):
                skipped.append("%s lists %s in %s but facet %s is not generated for %s" % (K.name, prop, attr, letter, prop))
    tasks = []
    for K, facets in sel:
        for cfg in K.configs(tier):
            if PR.cfg_relevant(prop, K, cfg):
                tasks.append((K.name, cfg, facets, tier))
    results = run_tasks(tasks, a.jobs, tier)

    # Modular verification is only as good as the contracts it leans on: a caller is checked against the CONTRACT of a
    # callee, so the callee's contract is an obligation of the caller's property too.  Close the selection under
    # "is used as a contract at a call site" (the callees of callees included) and discharge those contracts with
    # the facets this property generates.
    via_callee = set()
    if not a.only:
        have = {K.name for K, _ in sel}
        frontier = {s for r in results for s in r.get("stubs", [])} - have
        rounds = 0
        while frontier and rounds < 4:
            rounds += 1
            ctasks = []
            for nm in sorted(frontier):
                K = ct.REGISTRY.get(nm)
                if K is None:
                    continue
                fac = getattr(K, "facets", None) or PR.FACETS[prop]
                for cfg in K.configs(tier):
                    ctasks.append((K.name, cfg, fac, tier))
            via_callee |= frontier
            have |= frontier
            cres = run_tasks(ctasks, a.jobs, tier) if ctasks else []
            for r in cres:
                r["via_callee"] = True
            results = list(results) + cres
            tasks = tasks + ctasks
            frontier = {s for r in cres for s in r.get("stubs", [])} - have

    # A contract selected with only SOME of its configurations (cfg_relevant: e.g. the body operations of C17 in plain mode)
    # that a contract OWNING the property leans on as a callee in every mode (val() calls assert_zero under a false guard
    # too): the remaining configurations of that callee are obligations of the property as well.
    if not a.only:
        def _owns(K):
            return prop in (set(K.cprops) | set(K.sprops) | set(K.eprops) | set(K.vprops) | set(K.tprops) | set(K.fprops))
        leaned_on = {s for r in results if _owns(ct.REGISTRY[r["function"]]) for s in r.get("stubs", [])}
        extra = []
        for K, _f in sel:
            if K.name in leaned_on and not _owns(K):
                fac = getattr(K, "facets", None) or PR.FACETS[prop]
                extra += [(K.name, cfg, fac, tier) for cfg in K.configs(tier) if not PR.cfg_relevant(prop, K, cfg)]
        if extra:
            eres = run_tasks(extra, a.jobs, tier)
            for r in eres:
                r["via_callee"] = True
            results = list(results) + eres
            tasks = tasks + extra

    # The gadget layer is verified against the abstract backend of pyvc/ghost.py: evaluation of linear combinations is
    # the field expression of the operands' evaluations, fieldinverse inverts modulo the reported prime and refuses
    # zero.  Properties that speak about the witness and the constraints (satisfaction, soundness, value = wire
    # expression) lean on exactly that interface, so their check also discharges the contracts that establish it for
    # the concrete backends (value, raise and frame clauses of the backend-layer contracts of C13).
    if not a.only and prop != "C13" and (set(PR.FACETS[prop]) & set("CSEG") or prop == "C04") \
            and any(K.layer == "gadget" for K, _ in sel):
        have = {K.name for K, _ in sel} | via_callee
        btasks = []
        bnames = set()
        for nm, K in sorted(ct.REGISTRY.items()):
            if K.layer == "backend" and ("C13" in getattr(K, "vprops", ()) or prop in getattr(K, "interface_for", ())) and nm not in have:
                bnames.add(nm)
                for cfg in K.configs(tier):
                    if cfg.get("own_only") and prop not in getattr(K, "interface_for", ()):
                        continue
                    btasks.append((nm, cfg, "VRFK", tier))
        if btasks:
            bres = run_tasks(btasks, a.jobs, tier)
            for r in bres:
                r["via_callee"] = True
                r["via_backend_interface"] = True
            via_callee |= bnames
            results = list(results) + bres
            tasks = tasks + btasks

    # A failed frame obligation means the per-call pre-states no longer cover what the API can produce.  Search
    # the pre-states reachable through one earlier call of the same function for a failing input (pyvc/history.py).
    from pyvc import history as HI
    hist_tasks = []
    seen_h = set()
    for r in results:
        all_hist = os.environ.get("PYVC_ALL_HISTORIES", "1" if tier == "thorough" else "0") == "1" and not r.get("via_callee") \
            and any(K.name == r["function"] for K, _ in sel) and getattr(ct.REGISTRY[r["function"]], "history_ok", True)
        if (all_hist or any(ob["name"] == "frame.assigns" and ob["verdict"] == "refuted" for ob in r["obligations"])) \
                and ct.REGISTRY[r["function"]].layer == "gadget" and "_history" not in r["cfg_raw"]:
            for kind in HI.KINDS:
                key = (r["function"], repr(sorted(verify._cfg_repr(r["cfg_raw"]).items())), kind)
                if key not in seen_h:
                    seen_h.add(key)
                    fac = next(f for K, f in sel if K.name == r["function"])
                    # the history configurations are a SEARCH for a failing input, never part of a proof: quick budgets
                    hist_tasks.append((r["function"], dict(r["cfg_raw"], _history=kind), fac, "quick"))
    if hist_tasks:
        hres = run_tasks(hist_tasks, a.jobs, tier)
        for r in hres:
            # canaries and coverage were settled by the plain configurations
            r["obligations"] = [ob for ob in r["obligations"] if not ob.get("canary") and not ob["name"].startswith(("cover.", "canary"))
                                and ob["verdict"] != "unknown"]        # a search: only what it refutes (or proves) is reported
            r["engine_errors"] = []
        results = list(results) + [r for r in hres if not r.get("history_na")]

    findings = load_findings()
    broken = list(skipped[:5])
    obligations = []        # (function, cfg, ob)
    notes = []
    # A contract with an unbounded ("arbitrary ...") configuration next to concrete companions (the same clauses on concrete
    # shapes with symbolic values, loop-free and replayable): a countermodel of the unbounded configuration that NONE of the
    # companions reproduces -- they all prove that clause -- is an artefact of the abstraction (maps as arrays, products as
    # refined uninterpreted functions), not a counterexample: it cannot be replayed and is reported as a NOTE, never as a
    # violation.  (Seen on a behaviour-preserving change that reduces the scalar of LinearCombination.__mul__ modulo p.)
    by_fn = {}
    for r in results:
        by_fn.setdefault(r["function"], []).append(r)
    for fn_, rs in by_fn.items():
        oc = getattr(ct.REGISTRY[fn_], "optional_cfg", None)
        if not oc:
            continue
        conc = [r for r in rs if not oc(r["cfg_raw"]) and not r["engine_errors"]]
        if len(conc) < 3:
            continue
        for r in rs:
            if not oc(r["cfg_raw"]):
                continue
            keep = []
            for ob in r["obligations"]:
                nm = ob["name"]
                if ob["verdict"] == "refuted" and not ob.get("canary") and not nm.startswith(("canary", "cover.", "frame.", "loop.")):
                    same = [o for c_ in conc for o in c_["obligations"] if o["name"] == nm]
                    if same and all(o["verdict"] == "proved" for o in same):
                        notes.append("%s %s: countermodel of %s in the unbounded configuration is not reproduced by any of the %d concrete "
                                     "configurations (all prove it); not counted" % (fn_, r["cfg"], nm, len(conc)))
                        continue
                keep.append(ob)
            r["obligations"] = keep
    for r in results:
        K_ = ct.REGISTRY[r["function"]]
        if r["engine_errors"] and getattr(K_, "optional_cfg", None) and K_.optional_cfg(r["cfg_raw"]) \
                and all(e.startswith(("Unsupported", "Escape")) for e in r["engine_errors"]):
            # the unbounded configuration of this contract is outside the engine's subset for this source text; its
            # concrete companions (same clauses, concrete shapes) still decide
            notes.append("%s %s: not analysable (%s); decided on the concrete configurations only" % (r["function"], r["cfg"], r["engine_errors"][0][:120]))
            r["engine_errors"] = []
            r["obligations"] = [ob for ob in r["obligations"] if ob["verdict"] == "refuted"]
        for e in r["engine_errors"]:
            broken.append("%s %s: %s" % (r["function"], r["cfg"], e.strip().split("\n")[0][:300]))
        for ob in r["obligations"]:
            if prop in PR.clause_props(ct.REGISTRY[r["function"]], ob["name"], r["cfg_raw"]):
                obligations.append((r["function"], r["cfg_raw"], ob))
            elif r.get("via_callee") and not ob.get("canary") and (
                    ob["name"].split(".")[0] in PR.FACET_OF_LETTER_SET(prop)
                    or (r.get("via_backend_interface") and ("C13" in PR.clause_props(ct.REGISTRY[r["function"]], ob["name"], r["cfg_raw"])
                                                            or (prop in getattr(ct.REGISTRY[r["function"]], "interface_for", ())
                                                                and ob["name"][:2] in ("V.", "R.", "F."))))):
                ob["via_callee"] = True
                obligations.append((r["function"], r["cfg_raw"], ob))
    # cross-configuration trace equality (C06): same public parameters => same event list
    if prop == "C06":
        groups = {}
        for r in results:
            if r.get("sig") is not None:
                groups.setdefault((r["function"], PR.tgroup(r["cfg_raw"])), []).append(r)
        for (fn, grp), rs in groups.items():
            first = rs[0]
            for r in rs[1:]:
                same = r["sig"] == first["sig"]
                ob = dict(name="T.cross_config", path="*", backend="structural", s=0.0,
                          verdict="proved" if same else "refuted")
                if not same:
                    ob["detail"] = "trace under %r differs from trace under %r: %s" % (
                        r["cfg"], first["cfg"], verify._sigdiff(first["sig"], r["sig"]))
                    ob["models"] = [next(iter(first.get("path_models", {}).values()), {}),
                                    next(iter(r.get("path_models", {}).values()), {})]
                obligations.append((fn, r["cfg_raw"], ob))

    extra = PR.EXTRA.get(prop)
    if extra is not None and not a.only:
        for fn, cfg, ob in extra(tier):
            obligations.append((fn, cfg, ob))
    # A refuted loop obligation means "the sidecar invariant is not inductive for this loop".  That decides
    # nothing about the property (an equivalent rewrite of the loop does the same), and everything proved or
    # refuted AFTER such a cut in the same configuration rests on an invariant that was not established.
    # For contracts that come with loop-free companion configurations (concrete shapes, symbolic values)
    # those configurations decide: refutations of a configuration with a failed cut become `undecided`.
    tainted = set()
    for fn, cfg, ob in obligations:
        if ob["verdict"] == "refuted" and ob["name"].startswith("loop.") and getattr(ct.REGISTRY.get(fn), "loop_needs_confirmation", False):
            tainted.add((fn, repr(sorted(verify._cfg_repr(cfg).items()))))
    for fn, cfg, ob in obligations:
        if (fn, repr(sorted(verify._cfg_repr(cfg).items()))) in tainted and ob["verdict"] == "refuted" and not ob.get("canary"):
            ob["verdict"] = "unknown"
            ob["backend"] = str(ob.get("backend")) + " (loop invariant not inductive in this configuration: undecided here, see the loop-free configurations)"
    n_total = len(obligations)
    proved = refuted = unknown = 0
    by_backend = {}
    known_hits = {}
    new_viol = []
    undecided = []
    canary_fail = []
    for fn, cfg, ob in obligations:
        by_backend[ob.get("backend", "?")] = by_backend.get(ob.get("backend", "?"), 0) + 1
        if ob.get("canary"):
            if ob["verdict"] == "proved":
                canary_fail.append("%s %s %s: deliberately wrong clause was not refuted (%s)" % (fn, verify._cfg_repr(cfg), ob["name"], ob["verdict"]))
            else:
                proved += 1
            continue
        if ob["verdict"] == "proved":
            proved += 1
            continue
        f = match_finding(findings, prop if not ob.get("via_callee") else None, fn, ob["name"], cfg, ob.get("detail", ""))
        if f is not None:
            # a listed finding: the clause is known not to hold here (refuted, or not provable)
            known_hits.setdefault(f["id"], [f, 0])[1] += 1
        elif ob["verdict"] == "unknown":
            unknown += 1
            undecided.append((fn, cfg, ob))
        else:
            refuted += 1
            new_viol.append((fn, cfg, ob))

    if a.list_open:
        agg = {}
        for fn, cfg, ob in new_viol + undecided:
            k = (fn, ob["name"].split("[")[0] if not ob["name"].startswith(("G.", "R.")) else ob["name"])
            agg.setdefault(k, []).append((verify._cfg_repr(cfg), ob["verdict"], ob.get("model")))
        for (fn, cl), lst in sorted(agg.items()):
            print("OPEN %s %s %s :: %s" % (prop, fn, cl, "; ".join("%s=%s" % (c, v) for c, v, m in lst)[:400]))
            print("     model:", json.dumps(lst[0][2])[:300])
    wall = time.time() - t0
    functions = sorted({K.name for K, _ in sel} | via_callee)
    stubs = sorted({s for r in results for s in r.get("stubs", [])})
    solver_s = sum(r.get("solver_s", 0.0) for r in results)
    lines = []
    rc = 0
    for fid, (f, n) in sorted(known_hits.items()):
        lines.append("KNOWN-FINDING: property=%s %s %s: %s (%d refuted obligations match)" % (prop, f["function"].split(":")[1], f["clause"], f["what"], n))
    replay_paths = []
    if new_viol:
        rc = 1
        from pyvc import replay as RP
        # one report per (function, clause); among the configurations that refute it, the first whose countermodel
        # replays on the real code is the one reported (abstract configurations -- arbitrary maps -- cannot replay,
        # their concrete companions can)
        groups = {}
        for fn, cfg, ob in new_viol:
            groups.setdefault((fn, ob["name"].split("[")[0]), []).append((fn, cfg, ob))
        picked = []
        for key, lst in groups.items():
            if a.verbose:
                picked += [(x, None) for x in lst]
                continue
            best = None
            for cand in lst[:12]:
                path, confirmed = RP.write_replay(prop, cand[0], cand[1], cand[2], do_run=not a.no_replay)
                if best is None:
                    best = (cand, (path, confirmed))
                if confirmed:
                    best = (cand, (path, confirmed))
                    break
                if a.no_replay:
                    break
            if key[1] == "setup.completes" and not a.no_replay and not best[1][1]:
                # the engine saw the repository's code raise before the function under contract was reached, and
                # CPython running the same code does not: an engine fault, never a violation
                broken.append("%s %s: engine: %s (not reproduced by CPython on the real code)\n%s" % (
                    key[0], verify._cfg_repr(best[0][1]), best[0][2].get("detail"), best[0][2].get("engine_trace", "")))
                continue
            picked.append(best)
        if not picked:
            rc = 0
        for (fn, cfg, ob), done in picked:
            path, confirmed = done if done is not None else RP.write_replay(prop, fn, cfg, ob, do_run=not a.no_replay)
            replay_paths.append(path)
            lines.append("VIOLATION property=%s replay=%s%s" % (prop, path, "" if confirmed else " no-failing-input-found"))
            lines.append("  obligation %s of %s cfg=%s path=%s: refuted%s" % (
                ob["name"], fn, verify._cfg_repr(cfg), ob.get("path"), (" model=" + json.dumps(ob.get("model"))[:300]) if ob.get("model") else " " + str(ob.get("detail", ""))[:300]))
    if undecided and rc == 0:
        rc = 2
        for fn, cfg, ob in undecided[:10]:
            lines.append("UNDECIDED property=%s %s %s cfg=%s (%s)" % (prop, fn, ob["name"], verify._cfg_repr(cfg), str(ob.get("backend", "solver returned unknown within budget"))[:160]))
    if broken or canary_fail or n_total == 0:
        # a violation stays a violation (a deliberately wrong clause may well become true of changed code);
        # without one, a failed self-check means the run decides nothing
        if rc != 1:
            rc = 3
        for b in (broken + canary_fail)[:20]:
            lines.append("%s property=%s %s" % ("CHECKER-BROKEN" if rc == 3 else "NOTE self-check", prop, b))
        if n_total == 0:
            lines.append("CHECKER-BROKEN property=%s zero obligations generated" % prop)

    samples = []
    for fn, cfg, ob in obligations[:: max(1, len(obligations) // 6)][:6]:
        samples.append(dict(function=fn, cfg=verify._cfg_repr(cfg), obligation=ob["name"], path=ob.get("path"), verdict=ob["verdict"], backend=ob.get("backend")))
    n_known = sum(n for _, n in known_hits.values())
    ev = dict(
        property_id=prop, tier=tier, seed=seed, level="proof",
        coverage=dict(
            obligations=n_total - n_known, discharged=proved,
            checker_cmd="./check %s --tier %s" % (prop, tier),
            trusted_base=PR.TRUSTED_BASE,
            obligations_generated_total=n_total, refuted_listed_as_known_findings=n_known,
            refuted_new=refuted, unknown=unknown,
            functions_under_contract=functions, n_functions=len(functions),
            callee_contracts_used_at_call_sites=stubs,
            callee_contracts_discharged_for_this_property=sorted(via_callee),
            configurations=len(tasks), paths=sum(r.get("paths", 0) for r in results),
            discharged_by=by_backend, solver_s=round(solver_s, 2),
            repo_files_sha256_16=file_hashes(),
            known_findings=[dict(id=fid, clause=f["clause"], function=f["function"], what=f["what"], hits=n) for fid, (f, n) in known_hits.items()],
            samples=samples,
            explanation=PR.EXPLAIN.get(prop, ""),
            bounded=PR.BOUNDED.get(prop, []),
            exhaustive=False,
        ),
        assumptions=PR.ASSUMPTIONS + PR.PROP_ASSUMPTIONS.get(prop, []),
        wall_s=round(wall, 2),
        violations=len({(fn, ob["name"].split("[")[0]) for fn, cfg, ob in new_viol}),
    )
    evdir = os.environ.get("PYVC_EVIDENCE_DIR") or os.path.join(ROOT, "evidence")
    os.makedirs(evdir, exist_ok=True)
    with open(os.path.join(evdir, prop + ".json"), "w") as f:
        json.dump(ev, f, indent=1, default=str)
    slow = sorted(((ob.get("s", 0), fn, repr(verify._cfg_repr(cfg)), ob["name"], ob["verdict"]) for fn, cfg, ob in obligations), reverse=True)[:3]
    if slow and slow[0][0] > 2.0:
        for s_, fn, cfg, nm, vd in slow:
            lines.append("  slow: %.1fs %s %s %s %s" % (s_, fn, cfg, nm, vd))
    for n_ in notes[:10]:
        print("NOTE " + n_)
    for l in lines:
        print(l)
    print("%s tier=%s functions=%d configs=%d obligations=%d proved=%d known=%d refuted_new=%d unknown=%d solver=%.1fs wall=%.1fs exit=%d" % (
        prop, tier, len(functions), len(tasks), n_total, proved, n_known, refuted, unknown, solver_s, wall, rc))
    return rc


if __name__ == "__main__":
    sys.exit(main())
