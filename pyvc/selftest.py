"""pyvc.selftest -- validation of the verifier itself (./check selftest).

1. interpreter differential: seeded client programs over the real pysnark API are executed
   (a) by CPython itself on the real modules and (b) by pyvc's AST interpreter on the same
   sources; result values, exception classes and the recorded backend state (public values,
   private values, constraints) must agree exactly.
2. encoding differential: every SymInt operation is applied to a symbolic operand, the
   resulting z3 term (with all defining axioms, bit views, division witnesses, products
   computed by true arithmetic) is evaluated at random concrete values and compared with
   CPython's result on plain ints; every axiom emitted on the way must evaluate to true.
3. a deliberately broken body must be refuted (the pipeline is not vacuous).

Any disagreement: exit 3 ("engine unsound"), never a verdict about pysnark."""
import json
import os
import random
import subprocess
import sys
import tempfile
import time

ROOT = os.path.dirname(os.path.dirname(os.path.abspath(__file__)))
REPO = os.environ.get("PYVC_REPO", "/repo")

API = """
import pysnark.snarkjsbackend as be
import pysnark.runtime as rt
from pysnark.runtime import PrivVal, PubVal, ConstVal, LinComb
from pysnark.boolean import PrivValBool, PubValBool, LinCombBool
from pysnark.fixedpoint import PrivValFxp, PubValFxp, LinCombFxp
from pysnark.branching import if_then_else
from pysnark.array import Array
from pysnark.pack import PackBool, PackIntMod, PackList, PackRepeat
"""

OPS2 = ["+", "-", "*", "/", "//", "%", "<", "<=", ">", ">=", "==", "!=", "&", "|", "^", "<<", ">>", "**"]


# fixed programs for Python idioms a maintainer may well start using (each must behave under pyvc's interpreter
# exactly as under CPython): type identity, int subclasses, truthiness of containers, default arguments bound at
# definition time, closures, slices, try/finally order, `or`/`and` returning operands, string formatting of ints
LANGUAGE_PROGRAMS = [
    "def prog():\n    return [type(3) is int, type(True) is bool, type(True) is int, type(2.5) is float, type(3) == int, isinstance(True, int), type('s') is str]\n",
    "def prog():\n    class W(int):\n        pass\n    w = W(5)\n    return [type(w) is int, isinstance(w, int), w + 1, type(w + 1) is int, int(w) * 2]\n",
    "def prog():\n    class E:\n        def __init__(s): s.lc = {}\n    e = E()\n    return [bool(e), bool(e.lc), bool([]), (e or 7) is e, ([] or 7), ({} and 3), (0 or None)]\n",
    "k = 4\ndef f(x, m=k):\n    return x % m\ndef prog():\n    global k\n    k = 9\n    return [f(10), f(10, k)]\n",
    "def prog():\n    out = []\n    def g():\n        try:\n            out.append('t')\n            raise KeyError('x')\n        except ValueError:\n            out.append('v')\n        finally:\n            out.append('f')\n    try:\n        g()\n    except KeyError as e:\n        out.append(type(e).__name__)\n    return out\n",
    "def prog():\n    l = list(range(7))\n    l[1:] = [a + b for (a, b) in zip(l[1:], [10, 20])]\n    return [l, l[::-1][:2], l[-1], -7 // 2, -7 % 3, divmod(-7, 2), 7 >> 1, -1 >> 3, (1 << 70) % 1000]\n",
    "def prog():\n    acc = []\n    for i, x in enumerate(['a', 'b']):\n        acc.append('%d:%s' % (i, x))\n    return [' '.join(acc), str(-5) + 'x', '{}-{}'.format(1, 2), repr((1, 'a')), abs(-3) == 3, (5).bit_length(), (-5).bit_length(), pow(3, 5, 7)]\n",
    "def prog():\n    x = PrivVal(6)\n    return [isinstance(x, LinComb), type(x) is LinComb, type(x.value) is int, x.value.bit_length(), hasattr(x, 'lc'), getattr(x, 'nope', 1)]\n",
    "def prog():\n    d = {}\n    d[3] = 1\n    d[3] += 1\n    e = dict(d)\n    e[4] = 0\n    return [sorted(e.items()), 3 in d, 4 in d, len(e), list(d) == [3], d.get(9, 'z'), {k: v * 2 for k, v in e.items()}]\n",
    "class B:\n    n = 0\n    def __init__(self):\n        B.n += 1\n        self.i = B.n\n    def __bool__(self):\n        return self.i > 1\ndef prog():\n    a, b = B(), B()\n    return [bool(a), bool(b), B.n, (a or b) is b, not a]\n",
]


def gen_programs(seed, n):
    rnd = random.Random(seed)
    progs = list(LANGUAGE_PROGRAMS)
    vals = [0, 1, 2, 3, 5, 7, 12, -1, -4, 100, 255, 40000, -40000]
    for i in range(n):
        kind = rnd.choice(["bin", "bin", "bin", "bool", "fxp", "assert", "bits", "array", "ite", "pack", "guard", "snark"])
        a, b = rnd.choice(vals), rnd.choice(vals)
        bl = rnd.choice([8, 16, 16, 20])
        ie = rnd.random() < 0.15
        hdr = "    rt.bitlength = %d\n    rt.ignore_errors(%s)\n" % (bl, ie)
        if kind == "bin":
            op = rnd.choice(OPS2)
            lk, rk = rnd.choice(["PrivVal(%d)", "PubVal(%d)", "%d"]), rnd.choice(["PrivVal(%d)", "%d", "PubVal(%d)"])
            if "Val" not in lk and "Val" not in rk:
                lk = "PrivVal(%d)"
            if op in ("<<", ">>", "**"):
                b = rnd.choice([0, 1, 2, 3, -1, 5])
            body = "    r = (%s) %s (%s)\n    return r\n" % (lk % a, op, rk % b)
        elif kind == "bool":
            op = rnd.choice(["&", "|", "^", "+", "*", "-", "==", "<"])
            x, y = rnd.choice([0, 1]), rnd.choice([0, 1, 2])
            rk = rnd.choice(["PrivValBool(%d)", "%d", "PrivVal(%d)"])
            body = "    r = PrivValBool(%d) %s (%s)\n    return [r, ~PrivValBool(%d)]\n" % (x, op, rk % y, x)
        elif kind == "fxp":
            op = rnd.choice(["+", "-", "*", "/", "//", "%", "<", ">=", "=="])
            fa, fb = rnd.choice([1.5, -0.75, 2.0, 0.125, 3.0]), rnd.choice([1.5, 0.5, 2.0, -1.25, 4.0])
            rk = rnd.choice(["PrivValFxp(%r)", "%r", "PrivVal(3)", "2"])
            body = "    r = PrivValFxp(%r) %s (%s)\n    return r\n" % (fa, op, (rk % fb) if "%r" in rk else rk)
        elif kind == "assert":
            m = rnd.choice(["assert_lt", "assert_le", "assert_gt", "assert_ge", "assert_eq", "assert_ne"])
            body = "    PrivVal(%d).%s(%s)\n    PrivVal(%d).assert_positive(%d)\n    PrivVal(%d).assert_range(%d, %d)\n    return 'ok'\n" % (
                a, m, rnd.choice(["PrivVal(%d)" % b, str(b)]), abs(a) % 300, rnd.choice([4, 8, 9]), a, min(a, b) - 1, max(a, b) + 1)
        elif kind == "bits":
            v = abs(a)
            body = "    bits = PrivVal(%d).to_bits(%d)\n    r = LinComb.from_bits(bits)\n    return [r, PrivVal(%d).check_positive(), abs(PrivVal(%d)), PrivVal(%d).check_zero(), ~PrivVal(%d)]\n" % (
                v, rnd.choice([4, 8, 17]), b, b, b % 3, v % 200)
        elif kind == "array":
            n_ = rnd.choice([1, 2, 4])
            ix = rnd.choice([0, 1, 3, -1, n_])
            body = "    A = Array([PrivVal(k * k + 1) for k in range(%d)])\n    x = A[PrivVal(%d)]\n    A[PrivVal(%d)] = PrivVal(77)\n    return [x] + A.arr\n" % (n_, ix, max(ix - 1, 0))
        elif kind == "ite":
            body = "    c = PrivVal(%d) < PrivVal(%d)\n    return [if_then_else(c, PrivVal(%d), %d), if_then_else(c, [PrivVal(1), PrivVal(2)], [PrivVal(3), PrivVal(4)])]\n" % (a, b, a, b)
        elif kind == "pack":
            body = "    p = PackList([PackBool(), PackIntMod(%d), PackRepeat(PackIntMod(5), 2)])\n    plain = p.pack([1, %d, [%d, 3]])\n    sec = p.pack([PrivVal(1), PrivVal(%d), [PrivVal(2), PrivVal(4)]])\n    return [p.unpack(plain, 0), p.unpack(sec, 0), p.bitlen()]\n" % (
                rnd.choice([7, 16, 100]), abs(a) % 9, abs(b) % 6, abs(a) % 7)
        elif kind == "guard":
            g = rnd.choice([0, 1])
            body = ("    bak = rt.add_guard(PrivVal(%d))\n    try:\n        r = [PrivVal(%d) < PrivVal(%d), PrivVal(%d) * PrivVal(%d), PrivVal(%d).check_zero()]\n"
                    "        PrivVal(%d).assert_lt(%d)\n    finally:\n        rt.restore_guard(bak)\n    return r + [rt.guard is None, rt.ignore_errors()]\n") % (g, a, b, a, b, b % 2, a, b)
        else:
            body = "    f = rt.snark(lambda x, ys: [x * ys[0], ys[1] + 1, 5])\n    return f(%d, [%d, %d])\n" % (a, b, a % 7)
        progs.append("def prog():\n" + hdr + body)
    return progs


_RUNNER = r'''
import sys, json
sys.path.insert(0, %(repo)r)
%(api)s
import atexit; atexit._clear()
P = be.snarkjsp
def canon(x):
    if isinstance(x, (list, tuple)): return [canon(y) for y in x]
    if isinstance(x, dict): return {str(k): canon(v) for k, v in x.items()}
    if isinstance(x, LinCombFxp): return ["fxp", x.lc.value %% P]
    if isinstance(x, LinCombBool): return ["bool", x.lc.value %% P]
    if isinstance(x, LinComb): return ["lc", x.value %% P, sorted((k, v %% P) for k, v in x.lc.lc.items() if v %% P)]
    if isinstance(x, Array): return ["arr", canon(x.arr)]
    if isinstance(x, float): return ["float", repr(x)]
    if isinstance(x, (int, str, bool)) or x is None: return x
    return ["obj", type(x).__name__]
out = []
for src in json.load(open(sys.argv[1])):
    del be.pubvals[:]; del be.privvals[:]; del be.constraints[:]
    rt.guard = None; rt._ignore_errors = False; rt.LinComb.ONE = rt.LinComb.ONE_SAFE; rt.bitlength = 16; rt.num_constraints = 0
    ns = dict(globals())
    exec(compile(src, "<client>", "exec"), ns)
    try:
        r = ["ret", canon(ns["prog"]())]
    except BaseException as e:
        r = ["exc", type(e).__name__]
    out.append(dict(result=r, pub=[v %% P for v in be.pubvals], priv=[v %% P for v in be.privvals],
                    cons=[[sorted((k, v %% P) for k, v in L.lc.items() if v %% P) for L in c] for c in be.constraints],
                    ncons=rt.num_constraints))
json.dump(out, open(sys.argv[2], "w"))
'''


def native_run(progs):
    tmp = tempfile.mkdtemp(prefix="pyvc_selftest_")
    try:
        json.dump(progs, open(os.path.join(tmp, "progs.json"), "w"))
        open(os.path.join(tmp, "runner.py"), "w").write(_RUNNER % dict(repo=REPO, api=API))
        env = dict(os.environ)
        env.pop("PYSNARK_BACKEND", None)
        pr = subprocess.run([sys.executable, "runner.py", "progs.json", "out.json"], cwd=tmp, capture_output=True, text=True, timeout=600, env=env)
        if not os.path.exists(os.path.join(tmp, "out.json")):
            raise RuntimeError("native runner failed: " + pr.stderr[-800:])
        return json.load(open(os.path.join(tmp, "out.json")))
    finally:
        import shutil
        shutil.rmtree(tmp, ignore_errors=True)


def interp_run(progs):
    sys.path.insert(0, ROOT)
    from pyvc import interp, sym
    out = []
    for src in progs:
        sym.set_path(sym.Path())
        w = interp.World()
        w.import_module("pysnark.snarkjsbackend")
        import ast
        import types
        mod = types.ModuleType("pyvc_client")
        fr = interp.Frame("module", mod, None, set())
        it = interp.Interp(w)
        it.exec_block(ast.parse(API).body, fr)
        be, rt = mod.be, mod.rt
        P = be.snarkjsp
        LinComb, LinCombBool, LinCombFxp, Array = mod.LinComb, mod.LinCombBool, mod.LinCombFxp, mod.Array

        def canon(x):
            if isinstance(x, (list, tuple)):
                return [canon(y) for y in x]
            if isinstance(x, dict):
                return {str(k): canon(v) for k, v in x.items()}
            if isinstance(x, LinCombFxp):
                return ["fxp", x.lc.value % P]
            if isinstance(x, LinCombBool):
                return ["bool", x.lc.value % P]
            if isinstance(x, LinComb):
                return ["lc", x.value % P, sorted([k, v % P] for k, v in x.lc.lc.items() if v % P)]
            if isinstance(x, Array):
                return ["arr", canon(x.arr)]
            if isinstance(x, float):
                return ["float", repr(x)]
            if isinstance(x, (int, str, bool)) or x is None:
                return x
            return ["obj", type(x).__name__]
        it.exec_block(ast.parse(src).body, fr)
        try:
            r = ["ret", canon(mod.prog())]
        except (interp.Unsupported, sym.Escape):
            raise
        except BaseException as e:  # noqa
            r = ["exc", type(e).__name__]
        out.append(dict(result=r, pub=[v % P for v in be.pubvals], priv=[v % P for v in be.privvals],
                        cons=[[sorted([k, v % P] for k, v in L.lc.items() if v % P) for L in c] for c in be.constraints],
                        ncons=rt.num_constraints))
    return json.loads(json.dumps(out))


def encoding_differential(seed, n):
    """SymInt operations vs CPython ints at random values; all axioms must hold."""
    sys.path.insert(0, ROOT)
    import z3
    from pyvc import sym, verify
    rnd = random.Random(seed)
    P = 21888242871839275222246405745257275088548364400416034343698204186575808495617
    bad = []
    checked = 0
    unary = [("neg", lambda x: -x), ("abs", lambda x: abs(x)), ("inv", lambda x: ~x), ("bl<=5", lambda x: x.bit_length() <= 5),
             ("bl>9", lambda x: x.bit_length() > 9), ("and255", lambda x: x & 255), ("and-4", lambda x: x & -4), ("or5", lambda x: x | 5),
             ("xor9", lambda x: x ^ 9), ("shr3", lambda x: x >> 3), ("shl2", lambda x: x << 2), ("bitk", lambda x: (x & (1 << 3)) >> 3),
             ("pow3", lambda x: x ** 3), ("fdiv7", lambda x: x // 7), ("mod7", lambda x: x % 7), ("fdiv-3", lambda x: x // -3),
             ("mod-3", lambda x: x % -3), ("modp", lambda x: x % P), ("bool", lambda x: 1 if x else 0), ("cmp", lambda x: (x < 4) + (x >= -2) + (x == 3))]
    binary = [("add", lambda x, y: x + y), ("sub", lambda x, y: x - y), ("mul", lambda x, y: x * y), ("fdiv", lambda x, y: x // y),
              ("mod", lambda x, y: x % y), ("divmod", lambda x, y: divmod(x, y)[0] * 1000 + divmod(x, y)[1]), ("lt", lambda x, y: x < y),
              ("mulmix", lambda x, y: (x * y) * x - y * (x + 1)), ("rmod", lambda x, y: 17 % y if y else 0),
              ("or2", lambda x, y: x | y), ("and2", lambda x, y: x & y), ("xor2", lambda x, y: x ^ y), ("or2shift", lambda x, y: x | (y << 2))]
    pool = [0, 1, 2, 3, 7, 8, -1, -2, -7, 255, 256, 1023, -1024, 12345, P - 1, P, P + 5, -P, 2 ** 256, 2 ** 300 + 11]
    for it in range(n):
        name, f = rnd.choice(unary + binary)
        a, b = rnd.choice(pool), rnd.choice(pool)
        two = (name, f) in binary
        try:
            want = f(a, b) if two else f(a)
            wexc = None
        except ZeroDivisionError:
            want, wexc = None, "ZeroDivisionError"
        # symbolic run: decisions are resolved by the concrete values
        path = sym.Path()
        path.p = P
        sym.set_path(path)
        xs, ys = sym.SymInt(z3.Int("x")), sym.SymInt(z3.Int("y"))
        path.assume(xs.t == a)
        path.assume(ys.t == b)
        try:
            got = f(xs, ys) if two else f(xs)
            gexc = None
        except ZeroDivisionError:
            got, gexc = None, "ZeroDivisionError"
        except sym.Escape:
            continue
        checked += 1
        if wexc != gexc:
            bad.append("%s(%d,%d): exception %r vs %r" % (name, a, b, wexc, gexc))
            continue
        if wexc:
            continue
        gt = sym.term(got) if not isinstance(got, bool) else z3.IntVal(int(got))
        goal = gt == int(want)
        hy = [h for h in path.hyps()]
        # evaluate under the exact assignment (inputs a, b; derived symbols by definition; products exactly)
        cm = verify.concrete_refute_at(path, hy, goal, {"x": a, "y": b})
        if cm is not True:
            bad.append("%s(%d,%d): %s" % (name, a, b, cm))
    return checked, bad


def main(tier="quick", seed=0):
    t0 = time.time()
    n = 160 if tier == "quick" else 1200
    progs = gen_programs(seed, n)
    nat = native_run(progs)
    itp = interp_run(progs)
    dis = []
    kinds = {}
    for i, (a, b) in enumerate(zip(nat, itp)):
        kinds[a["result"][0]] = kinds.get(a["result"][0], 0) + 1
        if a != b:
            keys = [k for k in a if a[k] != b[k]]
            dis.append(dict(program=progs[i], differs_in=keys, native=str(a["result"])[:200], interp=str(b["result"])[:200]))
    checked, bad = encoding_differential(seed, 400 if tier == "quick" else 4000)
    ok = not dis and not bad
    ev = dict(property_id="selftest", tier=tier, seed=seed, level="translation_validation",
              coverage=dict(programs=len(progs), disagreements_checked=len(progs) + checked,
                            samples=progs[:3], outcomes=kinds, interpreter_disagreements=dis[:5],
                            encoding_cases=checked, encoding_disagreements=bad[:5]),
              assumptions=["CPython %s as reference" % sys.version.split()[0]], wall_s=round(time.time() - t0, 2),
              violations=0)
    evdir = os.environ.get("PYVC_EVIDENCE_DIR") or os.path.join(ROOT, "evidence")
    os.makedirs(evdir, exist_ok=True)
    json.dump(ev, open(os.path.join(evdir, "selftest.json"), "w"), indent=1)
    for d in dis[:8]:
        print("ENGINE-UNSOUND interpreter disagrees with CPython on:\n%s  differs in %s\n  native=%s\n  interp=%s" % (d["program"], d["differs_in"], d["native"], d["interp"]))
    for b in bad[:8]:
        print("ENGINE-UNSOUND encoding: " + b)
    print("selftest tier=%s programs=%d (outcomes %s) interpreter_disagreements=%d encoding_cases=%d encoding_disagreements=%d wall=%.1fs exit=%d" % (
        tier, len(progs), kinds, len(dis), checked, len(bad), time.time() - t0, 0 if ok else 3))
    return 0 if ok else 3
