"""pyvc.sym -- symbolic integers / booleans over z3 and the path machinery.

Python `int` is unbounded, so z3 `Int` *is* its semantics for + - * and for
// % by a non-zero divisor (floor semantics, encoded below).  A `SymInt` is a
subclass of `int` (so `isinstance(x, int)` in the code under verification is
true, as it is for the concrete value it stands for) that carries a z3 term.
Every operation the repository code applies to it is intercepted here; an
operation that would let CPython read the (meaningless) concrete payload
raises `Escape` -- the checker then reports "cannot analyse" (exit 3), never a
verdict.

Branching on a symbolic condition (`if`, `or`, `bool()`, `x if c else y`) asks
the current `Path` for a decision: paths are explored depth first by replaying
the function from the start with a recorded decision prefix.
"""
import itertools
import z3

Z = z3.IntVal


class Escape(Exception):
    """A symbolic value reached a place where its concrete payload would be used."""


class PathAbort(BaseException):
    """Current path is infeasible / exhausted (not an error of the code under test)."""


class Undecided(Exception):
    pass


# ---------------------------------------------------------------------------
# current path (one per process; tasks are run in worker processes)
# ---------------------------------------------------------------------------

class Path:
    def __init__(self, prefix=(), timeout_ms=3000):
        self.prefix = list(prefix)
        self.pos = 0
        self.decisions = []          # list of (bool outcome, forked?)
        self.pc = []                 # z3 Bool literals decided on this path
        self.axioms = []             # instantiated definitional axioms (sound facts)
        self.assumes = []            # facts assumed from callee contracts / preconditions
        self.solver = z3.Solver()
        self.solver.set("timeout", timeout_ms)
        self.pending = []            # alternative prefixes discovered on this path
        self.fresh_ctr = itertools.count()
        self.notes = []
        self.unknown_forks = 0
        self._imul = {}
        self._fmul = {}
        self._idiv = {}
        self.defs = []               # (fresh constant, definition or None) in creation order
        self.p = None                # field prime for fmul bridging (set by ghost backend)

    # -- facts -------------------------------------------------------------
    def axiom(self, f):
        self.axioms.append(f)
        self.solver.add(f)

    def assume(self, f):
        self.assumes.append(f)
        self.solver.add(f)

    def hyps(self):
        return self.axioms + self.assumes + self.pc

    def fresh(self, name, sort="int", define=None):
        """A fresh constant.  `define(val)` (optional) computes its intended value from an
        evaluator `val(term) -> int`: used by the concrete refuter to extend an assignment of the
        input symbols to all derived symbols without solving."""
        n = "%s!%d" % (name, next(self.fresh_ctr))
        v = z3.Int(n) if sort == "int" else z3.Bool(n)
        self.defs.append((v, define))
        return v

    # -- decisions ---------------------------------------------------------
    def decide(self, cond):
        """cond: z3 Bool.  Returns a Python bool; records it in the path condition."""
        c = z3.simplify(cond)
        if z3.is_true(c):
            return True
        if z3.is_false(c):
            return False
        if self.pos < len(self.prefix):
            out = self.prefix[self.pos]
            self.pos += 1
            self.decisions.append((out, True))
        else:
            rt = self.solver.check(c)
            rf = self.solver.check(z3.Not(c))
            if rt == z3.unknown or rf == z3.unknown:
                self.unknown_forks += 1
            t_ok = rt != z3.unsat
            f_ok = rf != z3.unsat
            if t_ok and f_ok:
                self.pending.append([d for d, _ in self.decisions] + [False])
                out = True
                self.decisions.append((True, True))
            elif t_ok:
                out = True
                self.decisions.append((True, False))
            elif f_ok:
                out = False
                self.decisions.append((False, False))
            else:
                raise PathAbort("path condition unsatisfiable")
            self.pos += 1
        lit = c if out else z3.Not(c)
        self.pc.append(lit)
        self.solver.add(lit)
        return out

    def signature(self):
        return "".join("1" if d else "0" for d, f in self.decisions if f) or "-"


_cur = [None]


def cur():
    if _cur[0] is None:
        raise RuntimeError("no active path")
    return _cur[0]


def set_path(p):
    _cur[0] = p


# ---------------------------------------------------------------------------
# term helpers
# ---------------------------------------------------------------------------

def term(x):
    """z3 Int term of a Python int / SymInt / bool."""
    if isinstance(x, SymInt):
        return x.t
    if isinstance(x, bool):
        return Z(1 if x else 0)
    if isinstance(x, int):
        return Z(x)
    if z3.is_expr(x):
        return x
    raise TypeError("term(%r)" % (type(x),))


def is_num(t):
    return z3.is_int_value(t)


def simp(t):
    return z3.simplify(t)


def lift(t):
    """SymInt or plain int from a z3 term (numerals become plain ints)."""
    t = z3.simplify(t)
    if z3.is_int_value(t):
        return t.as_long()
    return SymInt(t)


def liftb(b):
    b = z3.simplify(b)
    if z3.is_true(b):
        return True
    if z3.is_false(b):
        return False
    return SymBool(b)


_IMUL = z3.Function("imul", z3.IntSort(), z3.IntSort(), z3.IntSort())
_FMUL = z3.Function("fmul", z3.IntSort(), z3.IntSort(), z3.IntSort())
_IDIV = z3.Function("idiv", z3.IntSort(), z3.IntSort(), z3.IntSort())
_IMOD = z3.Function("imod", z3.IntSort(), z3.IntSort(), z3.IntSort())


def _order(a, b):
    return (a, b) if a.get_id() <= b.get_id() else (b, a)


def _lin_const(t):
    """If t is k*u for numeral k return (k,u); else (1,t)."""
    if z3.is_mul(t) and t.num_args() == 2 and z3.is_int_value(t.arg(0)):
        return t.arg(0).as_long(), t.arg(1)
    return 1, t


def imul(a, b):
    """Integer product of two z3 Int terms.  Linear when one side is a numeral,
    otherwise an application of the uninterpreted `imul` with instantiated
    axioms (sound: every axiom is a theorem of integer multiplication)."""
    a = z3.simplify(a)
    b = z3.simplify(b)
    if is_num(a) or is_num(b):
        return z3.simplify(a * b)
    # pull numeric factors out: (k*u)*(l*v) = (k*l)*imul(u,v)
    ka, ua = _lin_const(a)
    kb, ub = _lin_const(b)
    if ka != 1 or kb != 1:
        return z3.simplify((ka * kb) * imul(ua, ub))
    # distribute over If with numeral branches:  If(c,k1,k2)*b
    for x, y in ((a, b), (b, a)):
        if z3.is_app_of(x, z3.Z3_OP_ITE) and is_num(x.arg(1)) and is_num(x.arg(2)):
            return z3.simplify(z3.If(x.arg(0), x.arg(1) * y, x.arg(2) * y))
    P = cur()
    a, b = _order(a, b)
    key = (a.get_id(), b.get_id())
    if key in P._imul:
        return P._imul[key][0]
    t = _IMUL(a, b)
    P._imul[key] = (t, a, b)
    ax = [
        t == _IMUL(b, a),
        z3.Implies(a == 0, t == 0), z3.Implies(b == 0, t == 0),
        z3.Implies(a == 1, t == b), z3.Implies(b == 1, t == a),
        z3.Implies(a == -1, t == -b), z3.Implies(b == -1, t == -a),
        z3.Implies(a == 2, t == 2 * b), z3.Implies(b == 2, t == 2 * a),
        z3.Implies(t == 0, z3.Or(a == 0, b == 0)),
        (t > 0) == z3.Or(z3.And(a > 0, b > 0), z3.And(a < 0, b < 0)),
        z3.Implies(z3.And(a > 0, b > 0), z3.And(t >= a, t >= b)),
        z3.Implies(z3.And(a < 0, b < 0), z3.And(t >= -a, t >= -b)),
        z3.Implies(z3.And(a > 0, b < 0), z3.And(t <= -a, t <= b)),
        z3.Implies(z3.And(a < 0, b > 0), z3.And(t <= a, t <= -b)),
    ]
    if a.get_id() == b.get_id():
        ax.append(t >= 0)
    for f in ax:
        P.axiom(f)
    if P.p is not None:
        # bridge to the field:  (a*b) mod p  =  fmul(a mod p, b mod p)
        P.axiom(t % P.p == fmul(a % P.p, b % P.p))
    return t


def fmul(a, b):
    """Product in F_p of two *reduced* field elements (z3 Int terms in [0,p))."""
    P = cur()
    p = P.p
    a = z3.simplify(a)
    b = z3.simplify(b)
    if is_num(a) or is_num(b):
        return z3.simplify((a * b) % p)
    a, b = _order(a, b)
    key = (a.get_id(), b.get_id())
    if key in P._fmul:
        return P._fmul[key][0]
    u = _FMUL(a, b)
    P._fmul[key] = (u, a, b)
    for f in (
        u == _FMUL(b, a),
        u >= 0, u < p,
        (u == 0) == z3.Or(a == 0, b == 0),
        z3.Implies(a == 1, u == b), z3.Implies(b == 1, u == a),
        z3.Implies(a == 2, u == (2 * b) % p), z3.Implies(b == 2, u == (2 * a) % p),
        z3.Implies(a == p - 1, u == (-b) % p), z3.Implies(b == p - 1, u == (-a) % p),
    ):
        P.axiom(f)
    return u


def fmul_cancel(a, b1, b2):
    """Lemma instance (p prime): a != 0 and a*b1 == a*b2  ==>  b1 == b2."""
    P = cur()
    P.axiom(z3.Implies(z3.And(a != 0, fmul(a, b1) == fmul(a, b2)), b1 == b2))


def fmul_assoc(a, b, c):
    """Lemma instance (associativity in F_p): (a*b)*c == a*(b*c)."""
    P = cur()
    P.axiom(fmul(fmul(a, b), c) == fmul(a, fmul(b, c)))


def idivmod(a, b):
    """Python floor divmod of z3 Int terms, b known non-zero on this path."""
    a = z3.simplify(a)
    b = z3.simplify(b)
    if is_num(b):
        k = b.as_long()
        if k > 0:
            return z3.simplify(a / b), z3.simplify(a % b)
        # floor(a / k) for k<0  ==  floor((-a) / (-k));  a % k = a - k*q
        q = z3.simplify((-a) / Z(-k))
        return q, z3.simplify(a - k * q)
    P = cur()
    key = (a.get_id(), b.get_id())
    if key in P._idiv:
        return P._idiv[key]
    q = _IDIV(a, b)
    m = _IMOD(a, b)
    P._idiv[key] = (q, m)
    P.axiom(a == imul(b, q) + m)
    P.axiom(z3.Implies(b > 0, z3.And(m >= 0, m < b)))
    P.axiom(z3.Implies(b < 0, z3.And(m <= 0, m > b)))
    return q, m


def _chain(x, k):
    """Bit view of the integer term x (lemma L2, floor division by powers of two):
         q_0 = x,   q_i = 2*q_{i+1} + b_i,   b_i in {0,1}        for i <= k
    so that b_i is bit i of the two's-complement expansion of x and q_i = x >> i
    (= floor(x / 2^i), for negative x as well).  Introduced once per term, extended on demand."""
    P = cur()
    x = z3.simplify(x)
    views = P.__dict__.setdefault("_bitview", {})
    key = x.get_id()
    own = P.__dict__.setdefault("_bitview_owner", {}).get(key)
    if own is not None:
        # x is itself a shifted view (base >> off): share the base term's chain
        base, off = own
        bv = _chain(views[base]["x"], k + off)
        return dict(x=x, q=bv["q"][off:], b=bv["b"][off:])
    if key not in views:
        views[key] = dict(x=x, q=[x], b=[])
    v = views[key]
    owner = P.__dict__.setdefault("_bitview_owner", {})
    while len(v["b"]) <= k:
        i = len(v["b"])
        b = P.fresh("bit%d" % i, define=(lambda val, x=x, i=i: (val(x) >> i) & 1))
        q = P.fresh("shr%d" % (i + 1), define=(lambda val, x=x, i=i: val(x) >> (i + 1)))
        P.axiom(z3.And(b >= 0, b <= 1))
        P.axiom(v["q"][i] == 2 * q + b)
        v["b"].append(b)
        v["q"].append(q)
        owner[q.get_id()] = (key, i + 1)       # q is (x >> (i+1)): its bits are bits of x
    return v


def idiv_scale(a, b, R):
    """Lemma instance (R > 0, b != 0):  floor((a*R) / (b*R)) == floor(a / b)  and
    (a*R) mod (b*R) == R * (a mod b)."""
    P = cur()
    a, b = z3.simplify(a), z3.simplify(b)
    if is_num(b):
        return
    q1, m1 = idivmod(a * R, b * R)
    q0, m0 = idivmod(a, b)
    P.axiom(z3.Implies(b != 0, z3.And(q1 == q0, m1 == R * m0)))


def bit(x, k):
    """bit k (k>=0 concrete) of the two's-complement expansion of integer term x."""
    x = z3.simplify(x)
    if is_num(x):
        return Z((x.as_long() >> k) & 1)
    return _chain(x, k)["b"][k]


def shr(x, k):
    """x >> k  ==  floor(x / 2^k)  for concrete k >= 0."""
    x = z3.simplify(x)
    if k == 0:
        return x
    if is_num(x):
        return Z(x.as_long() >> k)
    c, u = _lin_const(x)
    if c % (1 << k) == 0 and c != 1:
        return z3.simplify((c >> k) * u)
    return _chain(x, k - 1)["q"][k]


def band_const(x, K):
    """x & K for a concrete int K."""
    if K >= 0:
        return z3.simplify(z3.Sum([Z(0)] + [(1 << k) * bit(x, k) for k in range(K.bit_length()) if (K >> k) & 1]))
    # K<0:  x & K  =  x - (x & ~K)
    return z3.simplify(x - band_const(x, ~K))


def band_bits(x, y, n):
    """(x & y) restricted to the low n bits, as a term (both symbolic)."""
    return z3.Sum([Z(0)] + [(1 << k) * z3.If(z3.And(bit(x, k) == 1, bit(y, k) == 1), 1, 0) for k in range(n)])


# ---------------------------------------------------------------------------
# symbolic int
# ---------------------------------------------------------------------------

def _other(o):
    """Return z3 term for an operand or None when the operand is not an integer."""
    if isinstance(o, SymInt):
        return o.t
    if isinstance(o, bool):
        return Z(1 if o else 0)
    if isinstance(o, int):
        return Z(o)
    return None


class SymInt(int):
    def __new__(cls, t):
        o = int.__new__(cls, 0)
        o.t = t
        return o

    # --- escapes ---------------------------------------------------------
    def __index__(self):
        raise Escape("symbolic int used as index/size")

    def __hash__(self):
        raise Escape("symbolic int hashed")

    def __repr__(self):
        return "<sym %s>" % (str(self.t)[:40],)

    __str__ = __repr__

    def __format__(self, spec):
        return "<sym>"

    def __int__(self):
        return self

    def __float__(self):
        raise Escape("float() of symbolic int")

    def __bool__(self):
        return cur().decide(self.t != 0)

    def bit_length(self):
        return SymBitLength(self.t)

    # --- arithmetic ---------------------------------------------------------
    def __add__(self, o):
        t = _other(o)
        if t is None:
            return NotImplemented
        return lift(self.t + t)

    __radd__ = __add__

    def __sub__(self, o):
        t = _other(o)
        if t is None:
            return NotImplemented
        return lift(self.t - t)

    def __rsub__(self, o):
        t = _other(o)
        if t is None:
            return NotImplemented
        return lift(t - self.t)

    def __mul__(self, o):
        t = _other(o)
        if t is None:
            return NotImplemented
        return lift(imul(self.t, t))

    __rmul__ = __mul__

    def __neg__(self):
        return lift(-self.t)

    def __pos__(self):
        return self

    def __abs__(self):
        if cur().decide(self.t >= 0):
            return self
        return lift(-self.t)

    def __invert__(self):
        return lift(-self.t - 1)

    def _divmod(self, a, b):
        if cur().decide(b == 0):
            raise ZeroDivisionError("integer division or modulo by zero")
        return idivmod(a, b)

    def __floordiv__(self, o):
        t = _other(o)
        if t is None:
            return NotImplemented
        return lift(self._divmod(self.t, t)[0])

    def __rfloordiv__(self, o):
        t = _other(o)
        if t is None:
            return NotImplemented
        return lift(self._divmod(t, self.t)[0])

    def __mod__(self, o):
        t = _other(o)
        if t is None:
            return NotImplemented
        return lift(self._divmod(self.t, t)[1])

    def __rmod__(self, o):
        t = _other(o)
        if t is None:
            return NotImplemented
        return lift(self._divmod(t, self.t)[1])

    def __divmod__(self, o):
        t = _other(o)
        if t is None:
            return NotImplemented
        q, m = self._divmod(self.t, t)
        return lift(q), lift(m)

    def __rdivmod__(self, o):
        t = _other(o)
        if t is None:
            return NotImplemented
        q, m = self._divmod(t, self.t)
        return lift(q), lift(m)

    def __truediv__(self, o):
        # float division: exact (as a rational) only while the operands are exactly representable
        if isinstance(o, int):
            d = term(o)
            if cur().decide(d == 0):
                raise ZeroDivisionError("division by zero")
            return SymQuot(self.t, d)
        raise Escape("true division of symbolic int by a non-integer")

    def __rtruediv__(self, o):
        raise Escape("true division by a symbolic int")

    def __pow__(self, o, mod=None):
        if mod is not None and not isinstance(o, SymInt) and not isinstance(mod, SymInt):
            return _powmod(self.t, o, mod)
        if isinstance(o, SymInt) or mod is not None:
            raise Escape("pow with symbolic exponent / modulus")
        if not isinstance(o, int):
            return NotImplemented
        if o < 0:
            raise Escape("negative power of symbolic int")
        r = Z(1)
        for _ in range(o):
            r = imul(r, self.t)
        return lift(r)

    def __rpow__(self, o, mod=None):
        raise Escape("symbolic exponent")

    def __lshift__(self, o):
        if isinstance(o, SymInt):
            raise Escape("shift by symbolic amount")
        if not isinstance(o, int):
            return NotImplemented
        if o < 0:
            raise ValueError("negative shift count")
        return lift(self.t * (1 << o))

    def __rlshift__(self, o):
        raise Escape("shift by symbolic amount")

    def __rshift__(self, o):
        if isinstance(o, SymInt):
            raise Escape("shift by symbolic amount")
        if not isinstance(o, int):
            return NotImplemented
        if o < 0:
            raise ValueError("negative shift count")
        return lift(shr(self.t, o))

    def __rrshift__(self, o):
        raise Escape("shift by symbolic amount")

    def _bitop2(self, o, op, name):
        """x <op> y for two symbolic ints: exact when the path condition bounds both to [0, 2^W) for some W <= 64
        (bit by bit over that width); otherwise the encoding has no width to work with and the path escapes."""
        P = cur()

        def width(t):
            for W in (1, 4, 8, 16, 32, 64):
                if P.solver.check(z3.Not(z3.And(t >= 0, t < (1 << W)))) == z3.unsat:
                    return W
            return None
        wa, wb = width(self.t), width(o.t)
        if wa is None or wb is None:
            raise Escape("%s of two symbolic ints (no width bound known)" % name)
        W = max(wa, wb)
        return lift(z3.Sum([z3.IntVal(0)] + [(1 << i) * op(bit(self.t, i), bit(o.t, i)) for i in range(W)]))

    def __and__(self, o):
        if isinstance(o, SymInt):
            return self._bitop2(o, lambda a, b: z3.If(z3.And(a == 1, b == 1), z3.IntVal(1), z3.IntVal(0)), "&")
        if not isinstance(o, int):
            return NotImplemented
        return lift(band_const(self.t, int(o)))

    __rand__ = __and__

    def __or__(self, o):
        if isinstance(o, SymInt):
            return self._bitop2(o, lambda a, b: z3.If(z3.Or(a == 1, b == 1), z3.IntVal(1), z3.IntVal(0)), "|")
        if not isinstance(o, int):
            return NotImplemented
        return lift(self.t + int(o) - band_const(self.t, int(o)))

    __ror__ = __or__

    def __xor__(self, o):
        if isinstance(o, SymInt):
            return self._bitop2(o, lambda a, b: z3.If(a != b, z3.IntVal(1), z3.IntVal(0)), "^")
        if not isinstance(o, int):
            return NotImplemented
        return lift(self.t + int(o) - 2 * band_const(self.t, int(o)))

    __rxor__ = __xor__

    # --- comparisons ------------------------------------------------------
    def __eq__(self, o):
        t = _other(o)
        if t is None:
            return NotImplemented
        return liftb(self.t == t)

    def __ne__(self, o):
        t = _other(o)
        if t is None:
            return NotImplemented
        return liftb(self.t != t)

    def __lt__(self, o):
        t = _other(o)
        if t is None:
            return NotImplemented
        return liftb(self.t < t)

    def __le__(self, o):
        t = _other(o)
        if t is None:
            return NotImplemented
        return liftb(self.t <= t)

    def __gt__(self, o):
        t = _other(o)
        if t is None:
            return NotImplemented
        return liftb(self.t > t)

    def __ge__(self, o):
        t = _other(o)
        if t is None:
            return NotImplemented
        return liftb(self.t >= t)


def _powmod(x, e, m):
    """pow(x, e, m) for concrete e, m.  Only the Fermat inverse  pow(x, m-2, m)  for the
    prime m of the current field is given a contract (assumed: builtin pow; Fermat's little
    theorem, Lean-checked in lemmas/):   r in [0,m),  x = 0 (mod m) -> r = 0,  else x*r = 1 (mod m)."""
    P = cur()
    if P.p is None or m != P.p or e != m - 2:
        raise Escape("three-argument pow outside the Fermat-inverse pattern")
    key = ("powinv", z3.simplify(x).get_id())
    memo = P.__dict__.setdefault("_powinv", {})
    if key not in memo:
        r = P.fresh("fermat", define=(lambda val, x=x, m=m: pow(val(x), m - 2, m)))
        xm = z3.simplify(x % m)
        P.axiom(z3.And(r >= 0, r < m))
        P.axiom(z3.Implies(xm == 0, r == 0))
        P.axiom(z3.Implies(xm != 0, fmul(xm, r) == 1))
        memo[key] = r
    return SymInt(memo[key])


class SymQuot:
    """x / k for a symbolic int x and a concrete int k (CPython float division).
    int(x / k) equals the exact truncated quotient only while |x| < 2**53 (floats are exact
    there and the correctly rounded quotient truncates to the exact one for |k| < 2**53 too);
    beyond that the machine result is left unconstrained -- machine arithmetic is treated as
    mathematical only where it is."""

    def __init__(self, num, den):
        self.num, self.den = num, den

    def to_int(self):
        P = cur()
        r = P.fresh("trunc", define=(lambda val, n=self.num, d=self.den: int(val(n) / val(d))))
        q, m = idivmod(self.num, self.den)
        exact = z3.If(z3.And(m != 0, (self.num < 0) != (self.den < 0)), q + 1, q)
        small = lambda t: z3.And(t > -(1 << 53), t < (1 << 53))
        P.axiom(z3.Implies(z3.And(small(self.num), small(self.den)), r == exact))
        return SymInt(r)


class SymBool(SymInt):
    """Result of a comparison: behaves like Python's bool (an int 0/1) with a
    symbolic truth value."""
    def __new__(cls, b):
        o = int.__new__(cls, 0)
        o.b = b
        o.t = z3.If(b, Z(1), Z(0))
        return o

    def __bool__(self):
        return cur().decide(self.b)

    def __repr__(self):
        return "<symbool %s>" % (str(self.b)[:40],)

    __str__ = __repr__


def formula(x):
    """z3 Bool of a Python bool / SymBool / z3 Bool / truthy SymInt."""
    if isinstance(x, SymBool):
        return x.b
    if isinstance(x, SymInt):
        return x.t != 0
    if isinstance(x, bool):
        return z3.BoolVal(x)
    if isinstance(x, int):
        return z3.BoolVal(x != 0)
    if z3.is_expr(x):
        return x
    raise TypeError("formula(%r)" % (x,))


class SymBitLength:
    """x.bit_length() of a symbolic x; only comparisons with concrete ints."""

    def __init__(self, t):
        self.t = t

    def _le(self, n):      # bit_length() <= n   <=>   -2^n < x < 2^n
        if n < 0:
            return z3.BoolVal(False)
        return z3.And(self.t > -(1 << n), self.t < (1 << n))

    def _chk(self, n):
        if isinstance(n, SymInt) or not isinstance(n, int):
            raise Escape("bit_length compared with non-concrete")

    def __le__(self, n):
        self._chk(n)
        return liftb(self._le(n))

    def __gt__(self, n):
        self._chk(n)
        return liftb(z3.Not(self._le(n)))

    def __lt__(self, n):
        self._chk(n)
        return liftb(self._le(n - 1))

    def __ge__(self, n):
        self._chk(n)
        return liftb(z3.Not(self._le(n - 1)))

    def __index__(self):
        raise Escape("bit_length of symbolic used concretely")


def truth(x):
    """Python truthiness with symbolic support."""
    if isinstance(x, SymInt):
        return x.__bool__()
    return bool(x)
