"""pyvc.symcoll -- symbolic finite maps and sequences of unbounded size, and the loop /
comprehension rules that let a sidecar invariant cut a loop over them.

A `SymMap` stands for an arbitrary dict with integer keys and integer values:
  dom : Array Int -> Bool        val : Array Int -> Int
Statements about *all* keys are handled pointwise and quantifier-free: a fact
"for all k: F(k)" is kept as a Python function k -> formula and instantiated at
the key terms a goal mentions; a goal "for all k: G(k)" is proved at a fresh k.
"""
import itertools
import z3

from . import sym
from .sym import SymInt, SymBool, term, formula, cur, lift, liftb, Escape

_ctr = itertools.count()


def _arr(name, rng):
    return z3.Array("%s!%d" % (name, next(_ctr)), z3.IntSort(), rng)


def forall_facts():
    P = cur()
    return P.__dict__.setdefault("forall_facts", [])


def add_forall(f):
    """Record  forall k. f(k)  (f: z3 Int term -> z3 Bool)."""
    forall_facts().append(f)


def instantiate(*keys):
    """Assume every recorded universal fact at the given key terms."""
    P = cur()
    for f in list(forall_facts()):
        for k in keys:
            P.assume(f(term(k)))


class SymMap:
    """dict proxy.  Mutations are recorded so frame clauses can be stated."""

    def __init__(self, name="m", dom=None, val=None):
        self.name = name
        self.dom = dom if dom is not None else _arr(name + "_dom", z3.BoolSort())
        self.val = val if val is not None else _arr(name + "_val", z3.IntSort())
        self.dom0, self.val0 = self.dom, self.val
        self.writes = 0

    @classmethod
    def empty(cls, name="new"):
        return cls(name, z3.K(z3.IntSort(), z3.BoolVal(False)), z3.K(z3.IntSort(), z3.IntVal(0)))

    def havoc(self):
        self.dom = _arr(self.name + "_dom", z3.BoolSort())
        self.val = _arr(self.name + "_val", z3.IntSort())

    def unchanged(self):
        return self.writes == 0 and self.dom is self.dom0 and self.val is self.val0

    def coef(self, k):
        """value at k, 0 outside the domain"""
        k = term(k)
        return z3.If(z3.Select(self.dom, k), z3.Select(self.val, k), z3.IntVal(0))

    # dict protocol ---------------------------------------------------------------
    def sym_contains(self, k):
        return liftb(z3.Select(self.dom, term(k)))

    def __contains__(self, k):
        return sym.truth(self.sym_contains(k))

    def __getitem__(self, k):
        k = term(k)
        if not cur().decide(z3.Select(self.dom, k)):
            raise KeyError(k)
        return lift(z3.Select(self.val, k))

    def __setitem__(self, k, v):
        k = term(k)
        self.dom = z3.Store(self.dom, k, z3.BoolVal(True))
        self.val = z3.Store(self.val, k, term(v))
        self.writes += 1

    def __delitem__(self, k):
        k = term(k)
        if not cur().decide(z3.Select(self.dom, k)):
            raise KeyError(k)
        self.dom = z3.Store(self.dom, k, z3.BoolVal(False))
        self.writes += 1

    def __iter__(self):
        raise Escape("iteration over a symbolic map without a loop invariant")

    def __len__(self):
        raise Escape("len() of a symbolic map")

    def sym_len(self):
        """cardinality: an unspecified non-negative integer attached to the current content"""
        key = (self.dom.get_id(), self.val.get_id())
        memo = cur().__dict__.setdefault("_card", {})
        if key not in memo:
            n = cur().fresh("card")
            cur().axiom(n >= 0)
            memo[key] = n
        return lift(memo[key])

    def get(self, k, default=None):
        k = term(k)
        if default is None:
            raise Escape("dict.get without a default on a symbolic map")
        return lift(z3.If(z3.Select(self.dom, k), z3.Select(self.val, k), term(default)))

    def copy(self):
        m = SymMap(self.name + "_copy", self.dom, self.val)
        return m

    def items(self):
        return SymItems(self)

    def keys(self):
        return self


class SymItems:
    def __init__(self, m):
        self.m = m

    def __iter__(self):
        raise Escape("iteration over symbolic map items without an invariant")

    def sym_dictcomp(self, interp, n, fr):
        """{key_expr: value_expr for (k, v) in m.items()}  with key_expr == k:
        evaluated once for an arbitrary entry, generalised by substitution."""
        from .interp import Unsupported
        P = cur()
        if len(n.generators) != 1 or n.generators[0].ifs:
            raise Unsupported("dict comprehension shape over symbolic map")
        m = self.m
        k = P.fresh("key")          # an arbitrary entry (k, v): fresh constants, generalised by substitution
        v = P.fresh("val")
        nd = len(P.decisions)
        cf = interp._comp_frame(n, fr)
        interp.assign(n.generators[0].target, (SymInt(k), SymInt(v)), cf)
        kk = interp.ev(n.key, cf)
        vv = interp.ev(n.value, cf)
        if len(P.decisions) != nd:
            raise Unsupported("comprehension body branches on the entry")
        if not z3.eq(z3.simplify(term(kk)), k):
            raise Unsupported("dict comprehension that renames keys")
        vt = term(vv)
        R = SymMap("comp")
        dom, val, mdom, mval = R.dom, R.val, m.dom, m.val
        add_forall(lambda x: z3.And(z3.Select(dom, x) == z3.Select(mdom, x),
                                    z3.Implies(z3.Select(mdom, x),
                                               z3.Select(val, x) == z3.substitute(vt, (k, x), (v, z3.Select(mval, x))))))
        R.dom0, R.val0 = R.dom, R.val
        return R


class MapLoop:
    """Loop rule for   for a in <SymMap>: body   with a pointwise invariant.

      inv(env, done, k) -> z3 Bool     env: the function's locals at that point
                                       done: Array Int->Bool, the keys already visited
    Obligations (emitted as call-site style obligations of the current path):
      base  inv(env, {}, k)                                   for a fresh k
      step  inv(env, D, k) /\\ inv(env, D, a) /\\ a in it \\ D |- inv(env', D+{a}, k)
    and after the loop the modified maps are havocked and  forall k. inv(env, dom(it), k)  is recorded."""

    def __init__(self, modifies, inv, name="loop"):
        self.modifies = modifies
        self.inv = inv
        self.name = name

    def __call__(self, interp, st, fr, it):
        from .interp import Unsupported
        P = cur()
        c = interp.w.ctx
        if not isinstance(it, SymMap):
            raise Unsupported("loop invariant given, but the iterated object is not a symbolic map")
        if st.orelse:
            raise Unsupported("for-else with invariant")
        env = fr.locals
        # base
        k = P.fresh("k")
        instantiate(k)
        empty = z3.K(z3.IntSort(), z3.BoolVal(False))
        c.callsite_obligations.append(("loop.%s.base" % self.name, list(P.hyps()), formula(self.inv(env, empty, k))))
        # step: arbitrary iteration
        for nm in self.modifies:
            env[nm].havoc()
        D = _arr("done", z3.BoolSort())
        a = P.fresh("iter")
        k1 = P.fresh("k")
        P.assume(z3.Select(it.dom, a))
        P.assume(z3.Not(z3.Select(D, a)))
        instantiate(a, k1)
        P.assume(formula(self.inv(env, D, a)))
        P.assume(formula(self.inv(env, D, k1)))
        interp.assign(st.target, SymInt(a), fr)
        from .interp import _Break, _Continue
        try:
            interp.exec_block(st.body, fr)
        except _Continue:
            pass
        except _Break:
            raise Unsupported("break in a loop with invariant")
        D2 = z3.Store(D, a, z3.BoolVal(True))
        c.callsite_obligations.append(("loop.%s.step" % self.name, list(P.hyps()), formula(self.inv(env, D2, k1))))
        # exit: forget the iteration, keep the invariant over the whole domain
        for nm in self.modifies:
            env[nm].havoc()
        snap = {nm: (env[nm].dom, env[nm].val) for nm in self.modifies}
        itdom = it.dom
        inv = self.inv

        class _View(dict):
            pass

        def fact(x):
            # evaluate the invariant against the maps as they were at loop exit
            saved = {nm: (env[nm].dom, env[nm].val) for nm in snap if nm in env}
            try:
                for nm, (d, v) in snap.items():
                    env[nm].dom, env[nm].val = d, v
                return formula(inv(env, itdom, x))
            finally:
                for nm, (d, v) in saved.items():
                    env[nm].dom, env[nm].val = d, v
        # the objects in env may be rebound later; capture them now
        objs = {nm: env[nm] for nm in self.modifies}
        envc = dict(env)

        def fact2(x):
            saved = {nm: (objs[nm].dom, objs[nm].val) for nm in objs}
            try:
                for nm, (d, v) in snap.items():
                    objs[nm].dom, objs[nm].val = d, v
                return formula(inv(envc, itdom, x))
            finally:
                for nm, (d, v) in saved.items():
                    objs[nm].dom, objs[nm].val = d, v
        add_forall(fact2)


class SymList:
    """list proxy of symbolic length with elements given pointwise: elem(i) -> tuple of terms."""

    def __init__(self, name, width, length=None, cols=None):
        self.name = name
        self.width = width
        self.length = length if length is not None else cur().fresh(name + "_len")
        if length is None:
            cur().assume(self.length >= 0)
        self.cols = cols if cols is not None else [_arr("%s_c%d" % (name, j), z3.IntSort()) for j in range(width)]
        self.fn = None          # optional: elem function overriding cols

    def elem(self, i):
        i = term(i)
        if self.fn is not None:
            return self.fn(i)
        return tuple(z3.Select(cl, i) for cl in self.cols)

    def __add__(self, o):
        if not isinstance(o, SymList):
            return NotImplemented
        if o.width != self.width:
            raise Escape("concatenating symbolic lists of different element width")
        R = SymList(self.name + "+" + o.name, self.width, z3.simplify(self.length + o.length), cols=[])
        a, b, n1 = self, o, self.length
        R.fn = lambda i: tuple(z3.If(i < n1, x, y) for x, y in zip(a.elem(i), b.elem(i - n1)))
        return R

    def __iter__(self):
        raise Escape("iteration over symbolic list")

    def __len__(self):
        raise Escape("len() of symbolic list")

    def sym_len(self):
        return lift(self.length)

    def append(self, x):
        if self.width != 1:
            raise Escape("append to a symbolic list of tuples")
        old_fn, n, xt = self.elem, self.length, term(x)
        prev = self.fn
        cols = self.cols
        def fn(i, prev=prev, cols=cols):
            base = prev(i) if prev is not None else tuple(z3.Select(cl, i) for cl in cols)
            return (z3.If(i == n, xt, base[0]),)
        self.fn = fn
        self.length = z3.simplify(n + 1)

    def sym_listcomp(self, interp, n, fr):
        """[expr for (x1..xw) in L]  evaluated once for an arbitrary element."""
        from .interp import Unsupported
        P = cur()
        if len(n.generators) != 1 or n.generators[0].ifs:
            raise Unsupported("list comprehension shape over symbolic list")
        nd = len(P.decisions)
        evars = [P.fresh("el%d" % j) for j in range(self.width)]     # an arbitrary element, generalised by substitution
        cf = interp._comp_frame(n, fr)
        interp.assign(n.generators[0].target, tuple(SymInt(t) for t in evars), cf)
        out = interp.ev(n.elt, cf)
        if len(P.decisions) != nd:
            raise Unsupported("comprehension body branches on the element")
        if not isinstance(out, tuple):
            out = (out,)
        outs = [term(x) for x in out]
        R = SymList("map", len(outs), self.length, cols=[])
        src = self

        def fn(j):
            ej = src.elem(j)
            return tuple(z3.substitute(t, *list(zip(evars, ej))) for t in outs)
        R.fn = fn
        return R
