"""pyvc.verify -- generate and discharge the obligations of one function under contract.

For a contract K on function f and a configuration cfg (enumerated *structure*:
widths, operand kinds, flag/guard mode -- values stay symbolic and unbounded):

  explore every path of the real body of f (callees with contracts replaced by
  their contracts), and on every path emit

    pre@callsite   each callee's `requires` at its call site
    R.*            raise <=> the contract's exceptional condition
    V.* / other    each `post` clause on normal exit
    S.*            post clauses that hold for every adversarial witness that
                   satisfies the triples emitted on this path
    C.sat_h[i]     every triple emitted holds on the honest witness mod p
    T.shape        the event list is the same on every non-raising path
    N.counts       #pub/#priv/#constraints equals the contract's `counts`

Verdict per obligation: proved (unsat of the negation) / refuted (model) /
unknown.  Nothing else is ever mapped to "violation".
"""
import json
import os
import subprocess
import tempfile
import time
import traceback

import z3

from . import sym, interp, ghost as gh, contract as ct
from .sym import Path, set_path, PathAbort, Escape, term, formula

VALUE_ERRORS = (ValueError, AssertionError, ArithmeticError, LookupError)
QUICK_TIMEOUT_MS = int(os.environ.get("PYVC_TIMEOUT_MS", "40000"))

import re as _re
_SYM_TYPE_IN_MESSAGE = _re.compile(r"\bSym(Int|Bool|List|Map|Bytes|Rat|Str|Seq)\b")


class EngineError(Exception):
    pass


def new_world(P, prime, contracts, modules, extra=None, contract=None):
    w = interp.World(contracts=contracts)
    g = gh.Ghost(w, prime)
    if contract is not None and getattr(contract, "layer", "gadget") != "gadget":
        # backend / process layer: the real modules are interpreted, no ghost backend is installed
        contract.world_setup(w)
        w.use_contracts = False
        for m in modules:
            w.import_module(m)
        w.use_contracts = True
        c = ct.Ctx(w, g)
        w.ctx = c
        return w, g, c
    ghost_as = getattr(contract, "ghost_as", None) or "pysnark.snarkjsbackend"
    if contract is not None:
        contract.world_setup(w)
    w.module_overrides[ghost_as] = gh.make_backend_module(w, g, ghost_as)
    w.import_module(ghost_as)
    w.use_contracts = False          # module initialisation runs the real bodies
    for m in modules:
        w.import_module(m)
    w.use_contracts = True
    g.rt = w.modules["pysnark.runtime"]
    c = ct.Ctx(w, g)
    w.ctx = c
    return w, g, c


def model_dict(m):
    out = {}
    for d in m.decls():
        if d.arity() == 0:
            v = m[d]
            try:
                out[d.name()] = v.as_long() if z3.is_int_value(v) else str(v)
            except Exception:
                out[d.name()] = str(v)
    return out


def discharge(P, extra_hyps, goal, timeout_ms):
    """Return (verdict, seconds, model|None, backend)."""
    t0 = time.time()
    goal = formula(goal)
    g = z3.simplify(goal)
    if z3.is_true(g):
        return "proved", 0.0, None, "simplifier"
    if z3.is_false(g) and not extra_hyps:
        # the clause is false outright on this (feasible) path: any model of the path is a countermodel
        if _path_feasible(P):
            try:
                mdl = model_dict(P.solver.model())
            except z3.Z3Exception:          # feasibility was settled earlier (or by the ground-run rule): no model at hand
                mdl = {}
            return "refuted", time.time() - t0, mdl, "simplifier+z3(path model)"
        return "unknown", time.time() - t0, None, "path feasibility undecided"
    if len(P.axioms) + len(P.assumes) + len(P.pc) > SLICE_THRESHOLD:
        return _discharge_sliced(P, extra_hyps, goal, timeout_ms, t0)
    s = P.solver
    s.push()
    try:
        s.set("timeout", timeout_ms)
        for h in extra_hyps:
            s.add(h)
        s.add(z3.Not(goal))
        # counterexample-guided refinement of the uninterpreted products: every lemma added
        # is a true instance of field / integer multiplication, so `unsat` stays a proof and
        # a model that survives is exact on every product that occurs
        r, rounds, exact = solve_refining(s, P, timeout_ms)
        if r == z3.unsat:
            return "proved", time.time() - t0, None, "z3" if rounds == 0 else "z3+refine%d" % rounds
        if r == z3.sat and exact:
            return "refuted", time.time() - t0, (getattr(s, "_exact_model", None) or model_dict(s.model())), "z3"
        try:
            allh = P.hyps() + list(extra_hyps)
            cm = concrete_refute(P, cone_of_influence(allh, [goal]), goal)
        except Exception:
            cm = None
        if cm is not None:
            return "refuted", time.time() - t0, cm, "concrete evaluation"
        if r == z3.sat:
            return "unknown", time.time() - t0, None, "z3 (abstract countermodel not concretised in %d rounds)" % rounds
        smt = s.to_smt2()
    finally:
        s.pop()
        s.set("timeout", 3000)
    # z3 said unknown: try cvc5
    v = _cvc5(smt, timeout_ms)
    if v == "unsat":
        return "proved", time.time() - t0, None, "cvc5"
    return "unknown", time.time() - t0, None, "z3+cvc5"


REFINE_ROUNDS = 25
SLICE_THRESHOLD = 400
_SYMS = {}


def _syms(f):
    # the cached entry keeps the AST alive, so its id cannot be reused for another term
    k = f.get_id()
    r = _SYMS.get(k)
    if r is None or not r[0].eq(f):
        r = _SYMS[k] = (f, frozenset(ct.free_syms(f)))
    return r[1]


def cone_of_influence(hyps, seeds):
    """Hypotheses connected to the goal through shared uninterpreted symbols (a sound
    weakening of the hypothesis set: fewer hypotheses can only lose proofs, never add any)."""
    want = set()
    for f in seeds:
        want |= _syms(f)
    rest = list(hyps)
    picked = []
    changed = True
    while changed:
        changed = False
        keep = []
        for h in rest:
            sy = _syms(h)
            if not sy or (sy & want):
                picked.append(h)
                if not sy <= want:
                    want |= sy
                    changed = True
            else:
                keep.append(h)
        rest = keep
    return picked


_SMALL = [0, 1, 2, 3, -1, 5, 7, -2, 4, 11, 6, -3]


def _defs(P):
    return {str(v): d for v, d in P.defs}


def concrete_refute(P, hyps, goal, tries=6, seed=0):
    """Quick falsification before any solving: assign small concrete values to the input
    symbols, extend to every derived symbol by its definition and to every product / quotient
    application by true arithmetic (pyvc.evalz3), and evaluate.  A hit (all hypotheses true,
    goal false) is an exact countermodel; a miss decides nothing."""
    import random
    from .evalz3 import Evaluator, NotConcrete
    defs = _defs(P)
    atoms = {}
    for f in list(hyps) + [goal]:
        for e in _consts(f):
            atoms[str(e)] = e
    inputs = [e for n, e in atoms.items() if n not in defs]
    if any(z3.is_array(e) for e in inputs):
        return None
    rnd = random.Random(seed)
    for attempt in range(tries):
        env = {}
        for e in inputs:
            if z3.is_bool(e):
                env[str(e)] = True if attempt % 2 == 0 else (rnd.random() < 0.5)
            else:
                env[str(e)] = _SMALL[rnd.randrange(4)] if attempt == 0 else _SMALL[rnd.randrange(len(_SMALL))]
        E = Evaluator(env, P.p, defs)
        try:
            if E.ev(goal):
                continue
            if all(E.ev(h) for h in hyps):
                return {k: (v if not isinstance(v, bool) else str(v)) for k, v in E.env.items() if k in atoms}
        except (NotConcrete, ZeroDivisionError, ValueError, RecursionError):
            continue
    return None


def concrete_refute_at(P, hyps, goal, inputs):
    """Evaluate hypotheses and goal at the given input assignment (name -> int).  Returns True
    when all hypotheses and the goal hold, else a description of what does not."""
    from .evalz3 import Evaluator, NotConcrete
    E = Evaluator(inputs, P.p, _defs(P))
    try:
        for h in hyps:
            if not E.ev(h):
                return "axiom/hypothesis does not hold: %s" % str(h)[:200]
        if not E.ev(goal):
            return "encoded result differs from CPython: %s" % str(goal)[:200]
    except (NotConcrete, ZeroDivisionError) as e:
        return "cannot evaluate: %s" % e
    return True


def repair_model(s, P, m, within=None):
    """Try to turn an abstract countermodel into an exact one without further solving: keep the
    model's values of the input symbols, recompute every derived symbol and every product /
    quotient with true arithmetic, and evaluate all assertions under that assignment."""
    from .evalz3 import Evaluator, NotConcrete
    defs = _defs(P)
    asserts = list(s.assertions())
    atoms = {}
    for f in asserts:
        for e in _consts(f):
            atoms[str(e)] = e
    env = {}
    for n, e in atoms.items():
        if z3.is_array(e):
            return None
        # adversarial witnesses and other solver-chosen symbols keep the model's value;
        # functionally defined symbols (bit views, inverses) are recomputed
        if n in defs and defs[n] is not None and not n.startswith("a_"):
            continue
        val = m.eval(e, model_completion=True)
        if z3.is_int_value(val):
            env[n] = val.as_long()
        elif z3.is_true(val) or z3.is_false(val):
            env[n] = z3.is_true(val)
        else:
            return None
    E = Evaluator(env, P.p, {k: d for k, d in defs.items() if not k.startswith("a_")})
    try:
        if all(E.ev(f) for f in asserts):
            return {k: (v if not isinstance(v, bool) else str(v)) for k, v in E.env.items() if k in atoms}
    except (NotConcrete, ZeroDivisionError, ValueError, RecursionError):
        return None
    return None


def _consts(f):
    seen, out, stack = set(), [], [f]
    while stack:
        e = stack.pop()
        if e.get_id() in seen:
            continue
        seen.add(e.get_id())
        if z3.is_const(e) and e.decl().kind() == z3.Z3_OP_UNINTERPRETED:
            out.append(e)
        stack.extend(e.children())
    return out


def solve_refining(s, P, timeout_ms, within=None):
    """check() with counterexample-guided refinement of the uninterpreted products, under an
    overall deadline.  Returns (result, rounds, exact) -- exact: the final model (if sat) is
    consistent with true multiplication on every product considered."""
    deadline = time.time() + 2.0 * timeout_ms / 1000.0
    r = s.check()
    rounds = 0
    s._exact_model = None
    while r == z3.sat:
        lem = _product_lemmas(P, s.model(), within)
        if not lem:
            return r, rounds, True
        try:
            fixed = repair_model(s, P, s.model(), within)
        except Exception:
            fixed = None
        if fixed is not None:
            s._exact_model = fixed
            return r, rounds, True
        if rounds >= REFINE_ROUNDS or time.time() > deadline:
            return r, rounds, False
        rounds += 1
        s.add(*lem)
        left = int(max(1.0, deadline - time.time()) * 1000)
        s.set("timeout", min(timeout_ms, left))
        r = s.check()
    return r, rounds, True


def _symset(fs):
    out = set()
    for f in fs:
        out |= _syms(f)
    return out


def _path_feasible(P):
    """The path condition with all assumptions is satisfiable.  Every decision was checked
    satisfiable when it was taken; `unknown` here (huge ground runs) is resolved in favour of
    feasibility only when nothing but definitional axioms exist (no contract assumptions)."""
    r = getattr(P, "_feasible", None)
    if r is None:
        P.solver.set("timeout", 10000)
        res = P.solver.check()
        P.solver.set("timeout", 3000)
        r = P._feasible = (res == z3.sat) or (res == z3.unknown and not P.pc)
    return r


def _discharge_sliced(P, extra_hyps, goal, timeout_ms, t0):
    hyps = cone_of_influence(P.hyps(), [goal] + list(extra_hyps))
    s = z3.Solver()
    s.set("timeout", timeout_ms)
    s.add(*hyps)
    s.add(*extra_hyps)
    s.add(z3.Not(goal))
    within = _symset(hyps) | _symset([goal] + list(extra_hyps))
    r, rounds, exact = solve_refining(s, P, timeout_ms, within)
    if r == z3.unsat:
        return "proved", time.time() - t0, None, "z3/sliced" + ("+refine%d" % rounds if rounds else "")
    if r == z3.sat:
        # The slice is closed under symbol sharing, so the remaining hypotheses are an independent
        # subproblem: a model of the slice extends to the full set iff the rest is satisfiable,
        # which it is on a feasible path (checked once per path).
        if not exact:
            return "unknown", time.time() - t0, None, "z3 (abstract countermodel not concretised)"
        if _path_feasible(P):
            return "refuted", time.time() - t0, (s._exact_model or model_dict(s.model())), "z3/sliced"
        return "unknown", time.time() - t0, None, "z3 (path feasibility undecided)"
    v = _cvc5(s.to_smt2(), timeout_ms)
    if v == "unsat":
        return "proved", time.time() - t0, None, "cvc5/sliced"
    return "unknown", time.time() - t0, None, "z3+cvc5"


def _product_lemmas(P, m, within=None):
    """Instances of exact multiplication at the model's argument values, for every
    uninterpreted product application the model gets wrong (restricted to the products
    over the symbols `within`, when given)."""
    out = []
    p = P.p
    ev = lambda t: m.eval(t, model_completion=True)
    rel = (lambda t: True) if within is None else (lambda t: _syms(t) <= within)
    for (u, a, b) in list(P._fmul.values()):
        if not rel(u):
            continue
        try:
            a0, b0, u0 = ev(a).as_long(), ev(b).as_long(), ev(u).as_long()
        except Exception:
            continue
        if (a0 * b0) % p != u0:
            out.append(z3.Implies(a == a0, u == (a0 * b) % p))
            out.append(z3.Implies(b == b0, u == (b0 * a) % p))
    for (t, a, b) in list(P._imul.values()):
        if not rel(t):
            continue
        try:
            a0, b0, t0 = ev(a).as_long(), ev(b).as_long(), ev(t).as_long()
        except Exception:
            continue
        if a0 * b0 != t0:
            out.append(z3.Implies(a == a0, t == a0 * b))
            out.append(z3.Implies(b == b0, t == b0 * a))
    return out


def _cvc5(smt, timeout_ms):
    try:
        with tempfile.NamedTemporaryFile("w", suffix=".smt2", delete=False) as f:
            f.write("(set-logic ALL)\n" + smt)
            fn = f.name
        out = subprocess.run(["/usr/bin/cvc5", "--tlimit=%d" % timeout_ms, fn],
                             capture_output=True, text=True, timeout=timeout_ms / 1000 + 5)
        os.unlink(fn)
        return out.stdout.strip().split("\n")[0]
    except Exception:
        return "error"


def run_config(contract, cfg, facets="VCSTRN", prime=None, tier="quick", max_paths=4000):
    """Explore all paths of contract's function under cfg.  Returns a dict (JSON-able)."""
    t0 = time.time()
    import sys as _sys
    _sys.unraisablehook = lambda *a: None      # interpreted __del__ methods of abandoned paths
    if hasattr(_sys, "set_int_max_str_digits"):
        _sys.set_int_max_str_digits(0)         # coefficients of long linear chains are exact, unreduced integers
    facets = "".join(ch for ch in facets if ch not in getattr(contract, "skip_facets", ""))
    prime = prime or gh.PRIMES[cfg.get("prime", "bn254")]
    timeout_ms = QUICK_TIMEOUT_MS if tier == "quick" else QUICK_TIMEOUT_MS * 6
    res = dict(function=contract.name, cfg=_cfg_repr(cfg), paths=0, normal_paths=0, raise_paths=0,
               obligations=[], engine_errors=[], stubs=set(), sigs={}, solver_s=0.0, aborted=0,
               unknown_forks=0)
    worklist = [[]]
    seen_sig = {}
    budget_s = float(os.environ.get("PYVC_TASK_BUDGET_S", "150" if tier == "quick" else "1500"))
    while worklist:
        prefix = worklist.pop()
        if time.time() - t0 > budget_s:
            res["engine_errors"].append("time budget of %.0fs per (function, configuration) exceeded after %d paths; %d path prefixes unexplored"
                                        % (budget_s, res["paths"], len(worklist) + 1))
            break
        if res["paths"] >= max_paths:
            res["engine_errors"].append("path budget exceeded (%d)" % max_paths)
            break
        P = Path(prefix)
        set_path(P)
        try:
            try:
                w, g, c = new_world(P, prime, ct.REGISTRY, contract.modules, contract=contract)
                c.cfg = cfg
                fn, args, kwargs = contract.setup(c, cfg)
            except (PathAbort, Escape, interp.Unsupported, RecursionError):
                raise
            except Exception as e:
                where = getattr(e, "_pyvc_where", None)
                if where is None or not str(where[0]).startswith("pysnark"):
                    raise
                # The code that runs BEFORE the function under contract is entered (module import, initialisation,
                # the earlier statements of a client program) raised inside the repository's own code.  On the
                # unchanged tree it completes; the obligation is reported only when CPython running the real code
                # raises the same exception (run.py), otherwise it is an engine fault.
                res["obligations"].append(dict(
                    name="setup.completes", path="", backend="interpreter", s=0.0, verdict="refuted", model={},
                    detail="%s: %s at %s:%s" % (type(e).__name__, str(e)[:200], where[0], where[1]),
                    exc=type(e).__name__, engine_trace=traceback.format_exc()[-1200:]))
                break
            for f in contract.pre(c, *args, **kwargs):
                P.assume(formula(f))
            if P.solver.check() == z3.unsat:
                res["engine_errors"].append("vacuous: precondition unsatisfiable in cfg %r" % (cfg,))
                break
            hyp_start = len(g.trace)
            hist = cfg.get("_history")
            if hist:
                # pre-state reached through an earlier call of the same function (pyvc/history.py)
                from . import history as _hist
                w.target = contract.target
                w.target_entered = False
                try:
                    applies = _hist.prelude(c, hist, fn, args, kwargs, passthrough=(PathAbort, Escape, interp.Unsupported, RecursionError))
                except PathAbort:
                    res["aborted"] += 1
                    worklist.extend(P.pending)
                    continue
                except (Escape, interp.Unsupported, RecursionError) as e:
                    res["engine_errors"].append("history prelude: %s: %s" % (type(e).__name__, e))
                    worklist.extend(P.pending)
                    continue
                if not applies:
                    res["history_na"] = True
                    break
            if hasattr(contract, "begin_call"):
                contract.begin_call(c)
            c.entry_measure = contract.measure(c, *args, **kwargs) if hasattr(contract, "measure") else None
            c.entry = c.snapshot()
            start = len(g.trace)
            c.call_start = start          # events before this index belong to the setup / an earlier call (history)
            opsnap = _snapshot_operands(c, args, kwargs)
            stsnap = _snapshot_state(w, opsnap)
            w.target = contract.target
            w.target_entered = False
            outcome = None
            try:
                r = fn(*args, **kwargs)
                outcome = ("ret", r)
            except PathAbort:
                res["aborted"] += 1
                worklist.extend(P.pending)
                continue
            except (Escape, interp.Unsupported) as e:
                res["engine_errors"].append("%s: %s" % (type(e).__name__, e))
                worklist.extend(P.pending)
                continue
            except RecursionError as e:
                res["engine_errors"].append("RecursionError: %s" % e)
                continue
            except BaseException as e:
                if isinstance(e, MemoryError):
                    raise
                if isinstance(e, (TypeError, AttributeError)) and _SYM_TYPE_IN_MESSAGE.search(str(e)):
                    # CPython complaining about one of the ENGINE's symbolic stand-ins (an operation on it that the engine
                    # does not model): a limit of the verifier on this source text, never an exception of the code
                    res["engine_errors"].append("Unsupported: %s on a symbolic stand-in: %s" % (type(e).__name__, e))
                    worklist.extend(P.pending)
                    continue
                outcome = ("exc", e)
            if not w.target_entered and not contract.probe:
                res["engine_errors"].append("target function %s was never entered by setup()" % contract.target)
            worklist.extend(P.pending)
            res["paths"] += 1
            res["unknown_forks"] += P.unknown_forks
            res["stubs"].update(c.stub_calls)
            psig = P.signature()
            obs = []
            # call-site obligations
            if "P" in facets or True:
                for nm, hyps, f in c.callsite_obligations:
                    obs.append((nm, [], f, hyps))
            with _entry_state(c):
                raises = contract.raises(c, *args, **kwargs)
            if outcome[0] == "exc" and cfg.get("mode") == "g0" and "G" in facets and not cfg.get("raises_only") \
                    and isinstance(outcome[1], VALUE_ERRORS):
                # C07: under a false guard nothing may raise because of the values it meets
                P.solver.push()
                for t in [v.h for v in g.opnds] + list(g.publics):
                    P.solver.add(z3.And(t > -(prime // 2), t < prime // 2))
                rr = P.solver.check()
                mdl = model_dict(P.solver.model()) if rr == z3.sat else None
                P.solver.pop()
                ob = dict(name="G.inert[%s]" % type(outcome[1]).__name__, path=psig, backend="z3", s=0.0,
                          verdict="refuted" if rr == z3.sat else ("proved" if rr == z3.unsat else "unknown"))
                if mdl:
                    ob["model"] = {k: v for k, v in mdl.items() if k.startswith(("s_", "k_"))}
                res["obligations"].append(ob)
            if outcome[0] == "exc":
                e = outcome[1]
                res["raise_paths"] += 1
                if "R" in facets and not contract.raises_unspecified:
                    matching = [(i, cond) for i, (exc, cond) in enumerate(raises) if isinstance(e, exc)]
                    if not matching:
                        obs.append(("R.unexpected_exception[%s]" % type(e).__name__, [], z3.BoolVal(False), None))
                        res.setdefault("exc_detail", []).append("%s: %s" % (type(e).__name__, str(e)[:200]))
                        res.setdefault("exc_by_path", {})[psig] = "%s: %s" % (type(e).__name__, str(e)[:160])
                    else:
                        obs.append(("R.raise_implies_cond[%s]" % type(e).__name__, [],
                                    z3.Or(*[formula(cnd) for _, cnd in matching]), None))
                if "F" in facets:
                    with _entry_state(c):
                        pe = contract.post_exc(c, e, *args, **kwargs)
                    for nm, f in pe.items():
                        obs.append((nm + "@raise", [], f, None))
            else:
                res["normal_paths"] += 1
                r = outcome[1]
                if "R" in facets and not contract.raises_unspecified:
                    for i, (exc, cond) in enumerate(raises):
                        obs.append(("R.cond_implies_raise[%s#%d]" % (exc.__name__, i), [], z3.Not(formula(cond)), None))
                with _entry_state(c):
                    try:
                        clauses = contract.post(c, r, *args, **kwargs)
                    except (PathAbort, Escape, interp.Unsupported):
                        raise
                    except Exception as pe:  # noqa
                        # the result (or the state of this path) does not have the shape the postcondition talks about
                        clauses = {"V.result_shape": z3.BoolVal(False)}
                        res.setdefault("exc_by_path", {})[psig + "/post"] = "postcondition not evaluable on the returned object: %s: %s" % (type(pe).__name__, str(pe)[:120])
                sat_a = None
                for nm, f in clauses.items():
                    fac = nm.split(".")[0]
                    if fac == "canary":
                        if "K" in facets and cfg.get("mode") != "g0":
                            inner = nm.split(".", 1)[1]
                            hy = (g.sat_a(hyp_start) + ([] if contract.is_untied(inner) else list(g.ties))) if inner.startswith(("S.", "E.")) else []
                            obs.append((nm, hy, f, None))
                        continue
                    if fac not in facets:
                        continue
                    if fac in ("S", "E"):
                        if sat_a is None:
                            sat_a = g.sat_a(hyp_start)
                        # operands keep their values (the statement of C02/C03) unless the clause is declared
                        # to hold for arbitrary input wires
                        obs.append((nm, sat_a + ([] if contract.is_untied(nm) else list(g.ties)), f, None))
                    else:
                        obs.append((nm, [], f, None))
                if "F" in facets or "V" in facets:
                    mutated, same = _mutated_operands(c, opsnap)
                    obs.append(("F.operands_not_mutated", [], same, None))
                    if mutated:
                        res.setdefault("exc_by_path", {})[psig + "/frame"] = "written in place: " + ", ".join(mutated)[:200]
                if "C" in facets and _checked(c.entry):
                    for i, con in enumerate(g.own_cons(start)):
                        obs.append(("C.sat_h[%d]" % i, [], g.holds_h(con), None))
                    for i, grp in enumerate(g.groups(start)):
                        if not grp.checked:
                            obs.append(("C.callee_checked[%d:%s]" % (i, grp.name), [], z3.BoolVal(False), None))
                if "N" in facets:
                    with _entry_state(c):
                        exp = contract.counts(c, *args, **kwargs)
                    if exp is not None:
                        got = g.counts(start)
                        obs.append(("N.counts", [], z3.BoolVal(tuple(exp) == tuple(got)), None))
                        if tuple(exp) != tuple(got):
                            res.setdefault("count_detail", []).append("expected %r got %r on path %s" % (exp, got, psig))
                if "T" in facets:
                    sig = (g.trace_sig(start), _result_sig(c, r))
                    secret = _secret_coefs(g, start)
                    res["sigs"][psig] = (repr(sig), secret)
                    # an input on which CPython takes this very path (made exact: the raw model of the abstraction may
                    # get a product or a remainder wrong, and the native replay of T.shape would then compare other paths)
                    try:
                        r_, _rounds, _exact = solve_refining(P.solver, P, 3000)
                    except Exception:  # noqa
                        r_ = None
                    if r_ == z3.sat:
                        pm = getattr(P.solver, "_exact_model", None) or model_dict(P.solver.model())
                        res.setdefault("path_models", {})[psig] = {k: v for k, v in pm.items() if k.startswith(("s_", "k_"))}
            # frame: nothing outside the declared frame of the function is written (module globals, class
            # attributes, new attributes on operand objects).  The per-call contracts characterise an operand by
            # (value, wire expression) alone; state hidden elsewhere would make them unsound for later calls.
            hidden = _hidden_writes(w, stsnap, BASE_ASSIGNS + tuple(getattr(contract, "assigns", ())))
            obs.append(("frame.assigns", [], z3.BoolVal(not hidden), None))
            if hidden:
                res.setdefault("exc_by_path", {})[psig + "/assigns"] = "written outside the declared frame: " + ", ".join(hidden)[:300]
            # discharge.  Clauses of one postcondition are proved in the order they are written; a clause
            # that has been proved may be used as a lemma by the later ones of the same path (S/E clauses
            # among themselves, since they share the hypothesis "all triples hold adversarially").
            proved_se = []
            for nm, extra, goal, hyps_override in obs:
                if hyps_override is not None:
                    verdict, secs, model, backend = _discharge_standalone(hyps_override, goal, timeout_ms)
                else:
                    is_se = nm.startswith(("S.", "E."))
                    verdict, secs, model, backend = discharge(P, list(extra) + (proved_se if is_se else []), goal, timeout_ms)
                    if verdict == "proved" and not nm.startswith("canary"):
                        if is_se:
                            proved_se.append(formula(goal))
                        elif nm.startswith(("V.", "F.")) and outcome[0] == "ret" and extra == []:
                            P.assume(formula(goal))
                res["solver_s"] += secs
                ob = dict(name=nm, path=psig, verdict=verdict, s=round(secs, 4), backend=backend)
                if nm.startswith("canary"):
                    ob["canary"] = True
                if nm.startswith("R.unexpected_exception") and psig in res.get("exc_by_path", {}):
                    ob["detail"] = res["exc_by_path"][psig]
                if nm == "V.result_shape" and psig + "/post" in res.get("exc_by_path", {}):
                    ob["detail"] = res["exc_by_path"][psig + "/post"]
                if nm == "frame.assigns" and psig + "/assigns" in res.get("exc_by_path", {}):
                    ob["detail"] = res["exc_by_path"][psig + "/assigns"]
                if nm == "F.operands_not_mutated" and psig + "/frame" in res.get("exc_by_path", {}):
                    ob["detail"] = res["exc_by_path"][psig + "/frame"]
                if model is not None:
                    ob["model"] = {k: v for k, v in model.items()
                                   if k.startswith(("s_", "k_", "a_", "t_"))}
                    if nm.startswith(("S.", "E.")) and outcome[0] == "ret":
                        # adversarial values of the witnesses this function allocates itself, in order
                        # and of the results of callees that merely allocate a witness (PrivValBool, ...)
                        fg = []
                        for e in g.trace[hyp_start:]:
                            if isinstance(e, gh.Alloc) and e.var.kind == "priv":
                                fg.append(model.get(str(e.var.a)))
                            elif isinstance(e, gh.Grp) and getattr(e, "witness_like", False) and len(getattr(e, "result_vars", [])) == 1:
                                fg.append(model.get(str(e.result_vars[0].a)))
                        ob["forge"] = fg
                res["obligations"].append(ob)
        except (KeyboardInterrupt, MemoryError):
            raise
        except BaseException as e:
            res["engine_errors"].append("engine: %s: %s\n%s" % (type(e).__name__, e, traceback.format_exc()[-1500:]))
            break
    # cross-path trace-shape obligation
    if "T" in facets and res["sigs"]:
        sigs = res["sigs"]
        first = next(iter(sigs.values()))[0]
        first_psig = next(iter(sigs))
        pm = res.get("path_models", {})
        for psig, (s, secret) in sigs.items():
            res["obligations"].append(dict(name="T.shape", path=psig, backend="structural", s=0.0,
                                           verdict="proved" if s == first else "refuted",
                                           **({} if s == first else {"detail": _sigdiff(first, s),
                                                                     "models": [pm.get(first_psig, {}), pm.get(psig, {})],
                                                                     "model": pm.get(psig, {})})))
            res["obligations"].append(dict(name="T.public_coefficients", path=psig, backend="structural", s=0.0,
                                           verdict="proved" if not secret else "refuted",
                                           **({} if not secret else {"detail": secret[:3]})))
    # a canary (deliberately wrong clause) must be refuted on at least one path
    can = {}
    keep = []
    for o in res["obligations"]:
        if o.get("canary"):
            can.setdefault(o["name"], []).append(o)
        else:
            keep.append(o)
    for nm, lst in can.items():
        ref = [o for o in lst if o["verdict"] == "refuted"]
        keep.append(dict(name=nm, path="*", canary=True, backend="z3", s=round(sum(o["s"] for o in lst), 4),
                         verdict="refuted" if ref else ("unknown" if any(o["verdict"] == "unknown" for o in lst) else "proved")))
    res["obligations"] = keep
    res["sig"] = next(iter(res["sigs"].values()))[0] if res["sigs"] else None
    res["sigs"] = len(res["sigs"])
    res["stubs"] = sorted(res["stubs"])
    if cfg.get("raises_only") or any(o["name"] == "setup.completes" for o in keep):
        pass
    elif contract.covers_normal and res["normal_paths"] == 0 and not res["engine_errors"]:
        res["obligations"].append(dict(name="cover.normal_exit", path="*", verdict="refuted", backend="structural",
                                       s=0.0, detail="no path returns normally in cfg %r" % (cfg,)))
    elif contract.covers_normal:
        res["obligations"].append(dict(name="cover.normal_exit", path="*", verdict="proved", backend="structural", s=0.0))
    res["wall_s"] = round(time.time() - t0, 3)
    return res


def _discharge_standalone(hyps, goal, timeout_ms):
    """Obligation with its own hypothesis snapshot (call-site and loop obligations)."""
    t0 = time.time()
    goal = formula(goal)
    if z3.is_true(z3.simplify(goal)):
        return "proved", 0.0, None, "simplifier"
    P = sym.cur()
    sl = cone_of_influence(hyps, [goal])
    within = _symset(sl) | _syms(goal)
    # 1. the slice, short budget
    s = z3.Solver()
    s.set("timeout", min(timeout_ms, 3000))
    s.add(*sl)
    s.add(z3.Not(goal))
    r, rounds, exact = solve_refining(s, P, min(timeout_ms, 3000), within)
    if r == z3.unsat:
        return "proved", time.time() - t0, None, "z3/sliced"
    if r == z3.sat and exact and _path_feasible(P):
        return "refuted", time.time() - t0, (s._exact_model or model_dict(s.model())), "z3/sliced"
    # 2. quick falsification by concrete evaluation (exact countermodel or nothing)
    try:
        cm = concrete_refute(P, sl, goal)
    except Exception:
        cm = None
    if cm is not None:
        return "refuted", time.time() - t0, cm, "concrete evaluation"
    # 3. full budget
    s = z3.Solver()
    s.set("timeout", timeout_ms)
    s.add(*sl)
    s.add(z3.Not(goal))
    r, rounds, exact = solve_refining(s, P, timeout_ms, within)
    if r == z3.unsat:
        return "proved", time.time() - t0, None, "z3/sliced"
    if r == z3.sat:
        if exact and _path_feasible(P):
            return "refuted", time.time() - t0, (s._exact_model or model_dict(s.model())), "z3/sliced"
        return "unknown", time.time() - t0, None, "z3 (abstract countermodel not concretised)"
    v = _cvc5(s.to_smt2(), timeout_ms)
    if v == "unsat":
        return "proved", time.time() - t0, None, "cvc5"
    return "unknown", time.time() - t0, None, "z3+cvc5"


def _attr(x, name):
    """Attribute of an object of the code under verification; objects with a custom __getattr__ (BranchingValues)
    may answer a missing name with any exception."""
    try:
        return object.__getattribute__(x, name)
    except Exception:
        return None


def _secret_objects(x, out, depth=0):
    if depth > 4:
        return
    if isinstance(x, (list, tuple)):
        for y in x:
            _secret_objects(y, out, depth + 1)
    elif isinstance(x, dict):
        for y in x.values():
            _secret_objects(y, out, depth + 1)
    elif isinstance(x, (int, str, float, bytes, type(None))):
        return
    elif isinstance(_attr(x, "arr"), list):
        _secret_objects(_attr(x, "arr"), out, depth + 1)
    elif _attr(x, "lc") is not None:
        out.append(x)
        inner = _attr(x, "lc")
        if _attr(inner, "lc") is not None:
            out.append(inner)
    elif isinstance(_attr(x, "vals"), dict):          # BranchingValues
        _secret_objects(_attr(x, "vals"), out, depth + 1)


def _snapshot_operands(c, args, kwargs):
    """(object, its value object, its wire-expression object, coefficient map copy) for every secret object
    reachable from the arguments and for the shared constants: no call may change any of them in place."""
    objs = []
    _secret_objects(list(args) + list(kwargs.values()), objs)
    try:
        LC = c.rt.LinComb
        for nm in ("ZERO", "ONE", "ONE_SAFE"):
            objs.append(getattr(LC, nm))
    except Exception:
        pass
    snap = []
    for o in objs:
        lc = getattr(o, "lc", None)
        m = dict(lc.m) if isinstance(lc, gh.GLC) else None
        snap.append((o, getattr(o, "value", None), lc, m))
    return snap


# counters every constraint-emitting function advances
BASE_ASSIGNS = ("pysnark.runtime:num_constraints",)


def _shallow(v):
    if isinstance(v, dict):
        return ("dict", tuple((id(k), id(x)) for k, x in dict.items(v)))
    if isinstance(v, list):
        return ("list", tuple(id(x) for x in list.__iter__(v)))
    if isinstance(v, (set, frozenset)):
        return ("set", frozenset(id(x) for x in v))
    return None


def _snapshot_state(w, opsnap):
    """Module globals and class attributes of the repository modules loaded in this world, and the attribute
    sets of the operand objects, before the call."""
    import types as _t
    mods = {}
    for name, mod in list(w.modules.items()):
        if not isinstance(mod, _t.ModuleType) or not name.startswith("pysnark") or getattr(mod, "__ghost__", False) \
                or not getattr(mod, "__file__", None):
            continue
        d = {}
        for k, v in list(vars(mod).items()):
            if k.startswith("__"):
                continue
            d[k] = (v, _shallow(v))
            if isinstance(v, type) and getattr(v, "__module__", None) == name:
                for a, x in list(vars(v).items()):
                    if not a.startswith("__"):
                        d["%s.%s" % (k, a)] = (x, _shallow(x))
        mods[name] = d
    attrs = [(o, {k: (v, _shallow(v)) for k, v in vars(o).items() if k not in ("value", "lc")})
             for (o, _v, _l, _m) in opsnap if hasattr(o, "__dict__")]
    return mods, attrs


def _hidden_writes(w, snap, assigns):
    import fnmatch
    mods, attrs = snap
    out = []

    def allowed(tag):
        return any(fnmatch.fnmatch(tag, pat) for pat in assigns)
    for name, before in mods.items():
        mod = w.modules.get(name)
        if mod is None:
            continue
        now = {}
        for k, v in list(vars(mod).items()):
            if k.startswith("__"):
                continue
            now[k] = v
            if isinstance(v, type) and getattr(v, "__module__", None) == name:
                for a, x in list(vars(v).items()):
                    if not a.startswith("__"):
                        now["%s.%s" % (k, a)] = x
        for k, v in now.items():
            tag = "%s:%s" % (name, k)
            if k not in before:
                import types as _t
                if isinstance(v, _t.ModuleType):
                    continue                      # a (lazy) import binds a module name
                if not allowed(tag):
                    out.append(tag + " (new)")
            else:
                v0, sh0 = before[k]
                if v is not v0:
                    same = type(v) is type(v0) and isinstance(v, (int, str, bool, type(None))) and not isinstance(v, sym.SymInt) \
                        and not isinstance(v0, sym.SymInt) and v == v0
                    if not same and not allowed(tag):
                        out.append(tag + " (re-bound)")
                elif sh0 is not None and _shallow(v) != sh0 and not allowed(tag):
                    out.append(tag + " (container changed)")
        for k in before:
            if k not in now and not allowed("%s:%s" % (name, k)):
                out.append("%s:%s (deleted)" % (name, k))
    for o, before in attrs:
        now = vars(o)
        for a in sorted(now):
            if a in ("value", "lc"):
                continue              # F.operands_not_mutated speaks about these two
            tag = "%s.%s" % (type(o).__name__, a)
            if a not in before:
                if not allowed(tag):
                    out.append(tag + " (new attribute on an operand)")
            else:
                v0, sh0 = before[a]
                v = now[a]
                changed = (v is not v0 and not (type(v) is type(v0) and isinstance(v, (int, str, bool, type(None)))
                                                and not isinstance(v, sym.SymInt) and v == v0)) or (sh0 is not None and _shallow(v) != sh0)
                if changed and not allowed(tag):
                    out.append(tag + " (attribute of an operand re-assigned)")
    return out


def _mutated_operands(c, snap):
    """(names of attributes that were re-assigned, formula: every watched value and coefficient is unchanged)"""
    bad = []
    eqs = []
    for o, val, lc, m in snap:
        now = getattr(o, "value", None)
        if now is not val:
            bad.append("%s.value" % type(o).__name__)
            if isinstance(val, int) and isinstance(now, int):
                eqs.append(term(now) == term(val))
            else:
                eqs.append(z3.BoolVal(False))
        if getattr(o, "lc", None) is not lc:
            bad.append("%s.lc" % type(o).__name__)
            eqs.append(z3.BoolVal(False))
        elif m is not None:
            if list(lc.m.keys()) != list(m.keys()):
                bad.append("%s.lc support" % type(o).__name__)
                eqs.append(z3.BoolVal(False))
            else:
                for k in m:
                    if lc.m[k] is not m[k]:
                        bad.append("%s.lc coefficient" % type(o).__name__)
                        eqs.append(term(lc.m[k]) == term(m[k]))
    return bad, (z3.And(*eqs) if eqs else z3.BoolVal(True))


class _entry_state:
    """Evaluate contract clauses against the runtime flags as they were at entry."""

    def __init__(self, c):
        self.c = c

    def __enter__(self):
        self.skip = dict.__contains__(self.c.w.modules, "pysnark.runtime") is False or bool(self.c.entry.get("dummy"))
        if self.skip:
            self.c.now = dict(ie=False, guard=None, ONE=None)
            return
        rt = self.c.rt
        self.now = (rt._ignore_errors, rt.guard, rt.LinComb.ONE, rt.bitlength)
        e = self.c.entry
        rt._ignore_errors, rt.guard, rt.LinComb.ONE, rt.bitlength = e["ie"], e["guard"], e["ONE"], e["bitlength"]
        self.c.now = dict(ie=self.now[0], guard=self.now[1], ONE=self.now[2])

    def __exit__(self, *a):
        if self.skip:
            return
        rt = self.c.rt
        rt._ignore_errors, rt.guard, rt.LinComb.ONE, rt.bitlength = self.now


def _checked(entry):
    return (not entry["ie"]) or (entry["guard"] is not None)


def _cfg_repr(cfg):
    return {k: (v if isinstance(v, (int, str, bool, type(None), float)) else repr(v)) for k, v in cfg.items()}


def _result_sig(c, r):
    if r is None or isinstance(r, (bool, str, float)):
        return ("k", repr(r))
    if isinstance(r, sym.SymInt):
        return ("int",)
    if isinstance(r, int):
        return ("k", r)
    if isinstance(r, (list, tuple)):
        return tuple(_result_sig(c, x) for x in r)
    if isinstance(r, dict):
        return tuple((k, _result_sig(c, v)) for k, v in r.items())
    try:
        if hasattr(r, "lc"):
            try:
                return (type(r).__name__, c.g.lc_sig(c.lc(r)))
            except Exception:
                return (type(r).__name__,)
        if hasattr(r, "arr"):
            return ("Array", _result_sig(c, r.arr))
        if hasattr(r, "vals") and isinstance(r.vals, dict):
            return ("vals", tuple((k, _result_sig(c, v)) for k, v in r.vals.items()))
    except Exception:
        pass
    return (type(r).__name__,)


def _secret_coefs(g, start):
    bad = []
    for e in g.trace[start:]:
        if isinstance(e, gh.Con):
            for lc in (e.A, e.B, e.C):
                for v, cf in lc.m.items():
                    if isinstance(cf, sym.SymInt) and not ct._is_public(cf.t):
                        bad.append("%r:%s" % (v, str(cf.t)[:60]))
    return bad


def _sigdiff(a, b):
    if len(a) != len(b):
        n = min(len(a), len(b))
    else:
        n = len(a)
    for i in range(n):
        if a[i] != b[i]:
            return "first difference at char %d: ...%s... vs ...%s..." % (i, a[max(0, i - 60):i + 60], b[max(0, i - 60):i + 60])
    return "length %d vs %d" % (len(a), len(b))
