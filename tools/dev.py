#!/usr/bin/env python3-vt
"""Developer runner: verify named contracts (substring match), print non-proved obligations."""
import sys, os, signal, time
sys.path.insert(0, os.path.dirname(os.path.dirname(os.path.abspath(__file__))))
from pyvc import verify, contract
import contracts  # noqa


def main():
    args = [a for a in sys.argv[1:] if not a.startswith("-")]
    verbose = "-v" in sys.argv
    tier = "thorough" if "-t" in sys.argv else "quick"
    only = [a[3:] for a in sys.argv if a.startswith("-m=")]
    names = [n for n in contract.REGISTRY if not args or any(a in n for a in args)]
    bad = 0
    for nm in names:
        K = contract.REGISTRY[nm]
        for cfg in K.configs(tier):
            if only and cfg.get("mode") not in only:
                continue
            t0 = time.time()
            r = verify.run_config(K, cfg, facets="VCSTRNKEGLF", tier=tier)
            n = len(r["obligations"])
            nb = 0
            lines = []
            for o in r["obligations"]:
                ok = (o["verdict"] == "proved") != bool(o.get("canary"))
                if not ok:
                    nb += 1
                if not ok or verbose:
                    lines.append("     %s %s [%s] %s %ss %s %s" % ("OK " if ok else "BAD", o["name"], o["path"], o["verdict"], o["s"],
                                                                 o.get("detail", ""), o.get("model", "") if not o.get("canary") else ""))
            print("%s %s paths=%d/%d/%d obl=%d bad=%d wall=%.2fs solver=%.2fs stubs=%s" % (
                nm.split(":")[1], cfg, r["paths"], r["normal_paths"], r["raise_paths"], n, nb, r["wall_s"], r["solver_s"],
                [s.split(":")[1] for s in r["stubs"]]), flush=True)
            for e in r["engine_errors"]:
                print("     ENGINE", e, flush=True)
                nb += 1
            for l in lines:
                print(l, flush=True)
            for k in ("exc_detail", "count_detail"):
                if k in r:
                    print("     ", k, r[k][:3], flush=True)
            bad += nb
    print("TOTAL bad:", bad)


if __name__ == "__main__":
    main()
