#!/usr/bin/env python3
"""Regenerate /verif/MANIFEST.json from the table below (kept next to the checks it describes)."""
import json
import os

ROOT = os.path.dirname(os.path.dirname(os.path.abspath(__file__)))
TECH = "contract-based deductive verification: pyvc generates verification conditions from the real /repo function bodies (AST walked anew each run) against sidecar contracts; z3 discharges them (cvc5 on unknown); refutations are replayed on the real code"
NOTE = ("trusted: pyvc's encoding of the Python subset (differentially validated against CPython by ./check selftest, not proved), z3/cvc5 for unsat, "
        "the abstract backend contract pyvc/ghost.py, lemma instances for F_p and the floor-division bit view; structure (widths, operand kinds, shapes, flag/guard mode) "
        "is enumerated per configuration, values are symbolic and unbounded; program-level composition of per-call facets is a pen-and-paper frame argument resting on the proved obligation frame.assigns (no function keeps state outside its declared frame); after a failed frame obligation a depth-2 history search (bounded, only ever yields failing inputs) looks for a replayable witness")

CLAIMED = {
    "C01": ("proof", "facet C of every gadget function under contract: each triple emitted on each non-raising path of the real body holds on the honest witness mod p, for all operand values"),
    "C02": ("proof", "facet S: for all assignments to the auxiliary witnesses that satisfy the emitted triples the result wire is the field function of the operand wires, and with the operands tied to their honest values (a hypothesis the clause names itself, never a global axiom) it equals the honest result; boolean results are 0/1; callees enter through their contracts only. Known findings (quotient not range-checked; x&|^int unconstrained) are re-derived and replayed on every run"),
    "C03": ("proof", "facets S/E/R on every assertion and declaration: enforced relation equals the run-time relation at the same width, raise <=> relation false"),
    "C04": ("proof", "clause V.inv (value == wire expression on the honest witness mod p) on every function returning a secret object, in all four flag/guard modes; F.operands_not_mutated and frame.assigns: no existing secret object, shared constant, module global or operand attribute is written outside the declared frame"),
    "C05": ("proof", "facets V/R: returned value equals the plain-Python spec written from the property statement, raise <=> stated condition, for all operand values and operand-kind combinations"),
    "C06": ("proof", "facets T/N: the event list (variable kinds, triples with coefficients, callee groups keyed by public parameters) is identical on every non-raising path and across error/guard-value modes; no coefficient mentions a secret symbol"),
    "C07": ("proof", "all facets re-proved in modes g0/g1 plus G.inert: no value-caused exception is reachable under a false guard; known findings listed"),
    "C08": ("proof", "guard state machine: add_guard / restore_guard / the guarded wrapper against a havocked body that may leave any state behind and exit by return or by any BaseException; unbounded in nesting depth (no loop involved) and in values"),
    "C10": ("proof", "snarkjs prove(): the two files as ghost byte sequences, checked field by field against a layout written from the iden3 format description: magic/version/section table, declared sizes and counts, every field element canonical and congruent to the traced value, wire numbering; trace shapes enumerated, all values symbolic (negative, >= p, >= 2^256 included)"),
    "C13": ("proof", "backend linear-combination algebra with operands of UNBOUNDED size: the dict-merge loops of snarkjs/zkinterface LinearCombination are cut by pointwise invariants, comprehensions by a map rule, qaptools Sig by sequence contracts plus concrete-shape algebraic clauses (per wire, coefficient sums mod p); operands untouched, results fresh; allocation primitives; moduli equal the published curve orders (Miller-Rabin for primality); fieldinverse (relative to the modulus the backend reports NOW, also after set_modulus with inverses computed before) / gmpy.invert for every argument"),
    "C09": ("proof", "program schemas (if, if/else, if/elif/else, nested if, while, for with public and secret bounds, lazily evaluated selection) run as interpreted client programs over the real API with symbolic values and conditions, compared with their native-control-flow twin; complete in values, bounded in program shape. On the pinned tree every schema with a secret condition raises (known findings KF-22..28): what is proved is selection with value and list branches, the public-condition schemas, the bookkeeping functions, and - for arbitrary branch bodies - the honest-satisfaction and trace-shape facets of every gadget contract in the guarded modes (dead and live guard)"),
    "C11": ("proof", "zkinterface prove() for the three field configurations, at call level under an ASSUMED contract of flatbuffers.Builder (library absent; replays run the real prove() against that assumed Builder): the real generated accessor modules are interpreted against it and the message trees decoded by the slot order of zkinterface.fbs; ids, canonical little-endian values, free variable id, field maximum, message selection per file, no witness and no dependence on private values in circuit.zkif. File bytes are not decided"),
    "C12": ("proof", "qaptools writer side and split at token level: client programs (straight-line, repeated and partly cancelled terms, a sub-circuit function called twice, an inconsistent pair of calls) with symbolic values; every logged equation satisfied by the logged wire values mod p (independent evaluator of the equation grammar), public values tied, flush discipline before the split, per-function files complete, paired blocks of equal length / equal values / equal randomness, shared signature. External executables are failing stubs; md5 collision freedom assumed"),
    "C14": ("proof", "every LinCombFxp operator x operand-kind cell (fixed-point, secret int, boolean, int, float; either side) at resolutions {0,3}: a returned value equals the scaled-integer spec taken from the property statement; raising is an accepted outcome"),
    "C15": ("proof", "Array.__getitem__/__setitem__ with secret indices (1-D lengths 1..3; 2-D 2x2 with every public/secret index mix and rows that are Arrays or ArrayRows): whole-array postconditions, IndexError <=> out of range, out-of-range unprovable, identical trace for every index"),
    "C16": ("proof", "to_bits/from_bits/check_positive/assert_positive: round trip, rejection outside range, requested width == enforced width, at widths different from the global bitlength"),
    "C17": ("proof", "the @snark wrapper against a havocked body: one public input per numeric argument leaf, body receives the same shape, one public output per secret result tied by a constraint, plain values returned, nothing else public, keyword arguments refused before any event; argument/result shapes enumerated (including the same wire returned twice); LinComb.val allocates and ties one new public wire on every call; the value and refusal facets of every traced operation (C05 / C14 contracts, checks on, no guard) count as well: the plain values returned are those the undecorated function computes"),
    "C18": ("proof", "code side proved (ExitOverrider.exit/excepthook/__init__, maybe_, runtime.final); the interpreter's termination behaviour is an assumed environment contract whose clauses are validated by one subprocess probe per (termination mode, position) on the installed CPython (those probes are observations, not proofs)"),
    "C20": ("proof", "Poseidon: each of the 68 rounds of the real loop bodies equals the reference round function for ALL states (loop cut per iteration), sponge absorption/padding/output, parameter set bound to runtime.backend_name, constraint counts; ground instances against an independent plain-integer implementation and the published vectors (BN254, BLS12-381); subset-sum hash equals its plain form mod p; SHA512 generator compared with a reimplementation on 32 indices (bounded)"),
    "C19": ("proof", "the module-level selection code of runtime.py executed with a SYMBOLIC environment (pre-imported set, PYSNARK_BACKEND value, loadability map, ipython): every environment is covered by the explored paths; real backend modules are loaded through the interpreter with absent third-party dependencies stubbed"),
}

NOT_APPLICABLE = {
}

PENDING = "check not built yet (build in progress)"


def main():
    props = [json.loads(l) for l in open(os.path.join(ROOT, "properties.jsonl"))]
    checks = []
    for pid, (lvl, text) in sorted(CLAIMED.items()):
        checks.append(dict(
            property_id=pid, quick_cmd="./check %s --tier quick" % pid, thorough_cmd="./check %s --tier thorough" % pid,
            evidence_file="evidence/%s.json" % pid, replay_cmd_template="python3-vt -m pyvc.replay {path}", engine="pyvc",
            level_claimed=dict(category=lvl, text=text, design_ref="DESIGN.md section 3, " + pid),
            level_note=NOTE, technique=TECH))
    na = []
    for p in props:
        if p["id"] in CLAIMED:
            continue
        na.append(dict(property_id=p["id"], reason=NOT_APPLICABLE.get(p["id"], PENDING)))
    m = dict(
        version=1,
        setup_cmd="python3-vt -c 'import z3; print(z3.get_version_string())'",
        hooks=dict(guard="MEILOF_PYSNARK_VERIF",
                   enable="no hooks in /repo: checks read /repo sources directly; replays use the library's own backend pre-import mechanism",
                   baseline_off_cmd="cd /repo && /venv/bin/python -m pytest -q -p no:cacheprovider --timeout=900",
                   source_commits=[], add_only=True),
        engines=[dict(name="pyvc", path="pyvc/", serves_properties=sorted(CLAIMED),
                      kind_free_text="verification-condition generator: AST interpreter over the real /repo sources with symbolic integers and symbolic maps/sequences, sidecar contracts in contracts/, z3/cvc5 discharge with CEGAR refinement of field products, native replay")],
        checks=checks,
        notes="fix: commits in /repo repair defects the checks found (see known_findings.json, status fixed); recorded defects are listed there with status known",
        not_applicable=na)
    json.dump(m, open(os.path.join(ROOT, "MANIFEST.json"), "w"), indent=1)
    print("claimed", sorted(CLAIMED), "pending", [x["property_id"] for x in na])


if __name__ == "__main__":
    main()
