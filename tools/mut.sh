#!/bin/sh
export PYVC_EVIDENCE_DIR=/tmp/pyvc_scratch_evidence   # checks against changed trees must not overwrite /verif/evidence
# tools/mut.sh '<python snippet editing variable s of file F>' F <check args...>
# Runs a check against a scratch copy of /repo with one file edited (never touches /repo).
set -e
SNIP="$1"; FILE="$2"; shift 2
D=$(mktemp -d /tmp/pyvc_mut_XXXX)
cp -r /repo/pysnark "$D/pysnark"
python3 - "$D/$FILE" <<PY
import sys
p=sys.argv[1]
s=open(p).read()
o=s
$SNIP
assert s!=o, "mutation did not change the file"
open(p,'w').write(s)
PY
cd /verif
PYVC_REPO="$D" ./check "$@" 2>&1 | cut -c1-260 | grep -v "^KNOWN" | tail -8
rm -rf "$D"
