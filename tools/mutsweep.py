#!/usr/bin/env python3-vt
"""tools/mutsweep.py -- systematic mutation sweep of the repository against the checks.

For a repository file, generate AST-level mutants (statement deletion, comparison / arithmetic / boolean
operator swaps, constant tweaks, condition negation), and for each mutant, on a scratch copy (never /repo):

  1. run the repository's 75 tests: a mutant the tests kill is of no interest here;
  2. run the given checks with PYVC_REPO pointing at the copy.

A mutant that survives the tests AND all given checks is printed as SURVIVOR: either an equivalent mutant or a
contract that is too weak.  Results go to a JSON file; nothing is written to /verif/evidence.

usage: mutsweep.py <file relative to repo> <out.json> [--checks C01,C02] [--sample N] [--seed S] [--jobs J] [--only lo-hi]
"""
import ast
import copy
import json
import os
import random
import shutil
import subprocess
import sys
import tempfile
from concurrent.futures import ThreadPoolExecutor

REPO = os.environ.get("PYVC_REPO", "/repo")
VERIF = os.path.dirname(os.path.dirname(os.path.abspath(__file__)))

CMP = {ast.Lt: ast.LtE, ast.LtE: ast.Lt, ast.Gt: ast.GtE, ast.GtE: ast.Gt, ast.Eq: ast.NotEq, ast.NotEq: ast.Eq,
       ast.Is: ast.IsNot, ast.IsNot: ast.Is}
BIN = {ast.Add: ast.Sub, ast.Sub: ast.Add, ast.Mult: ast.Add, ast.FloorDiv: ast.Mult, ast.Mod: ast.FloorDiv,
       ast.LShift: ast.RShift, ast.RShift: ast.LShift, ast.BitAnd: ast.BitOr, ast.BitOr: ast.BitAnd, ast.BitXor: ast.BitAnd,
       ast.Pow: ast.Mult, ast.Div: ast.Mult}


def sites(tree):
    """(kind, node-index, description) for every mutation site; node-index is the position in ast.walk order."""
    out = []
    for i, n in enumerate(ast.walk(tree)):
        ln = getattr(n, "lineno", 0)
        if isinstance(n, ast.Expr) and isinstance(n.value, ast.Call):
            out.append(("del_call", i, ln))
        elif isinstance(n, ast.Raise):
            out.append(("del_raise", i, ln))
        elif isinstance(n, ast.Compare) and len(n.ops) == 1 and type(n.ops[0]) in CMP:
            out.append(("cmp", i, ln))
        elif isinstance(n, ast.BinOp) and type(n.op) in BIN:
            out.append(("bin", i, ln))
        elif isinstance(n, ast.BoolOp):
            out.append(("bool", i, ln))
        elif isinstance(n, ast.UnaryOp) and isinstance(n.op, ast.Not):
            out.append(("not", i, ln))
        elif isinstance(n, ast.UnaryOp) and isinstance(n.op, ast.USub):
            out.append(("neg", i, ln))
        elif isinstance(n, ast.If):
            out.append(("ifneg", i, ln))
        elif isinstance(n, ast.Constant) and type(n.value) is int and abs(n.value) < 1000:
            out.append(("const", i, ln))
        elif isinstance(n, ast.Constant) and type(n.value) is bool:
            out.append(("boolconst", i, ln))
        elif isinstance(n, ast.Assign) and len(n.targets) == 1 and isinstance(n.targets[0], (ast.Attribute, ast.Subscript)):
            out.append(("del_store", i, ln))
        elif isinstance(n, ast.AugAssign):
            out.append(("del_aug", i, ln))
    return out


def apply(tree, kind, idx):
    t = copy.deepcopy(tree)
    for i, n in enumerate(ast.walk(t)):
        if i != idx:
            continue
        if kind in ("del_call", "del_raise", "del_store", "del_aug"):
            # replace the statement by `pass` in its parent body
            for p in ast.walk(t):
                for fld in ("body", "orelse", "finalbody"):
                    b = getattr(p, fld, None)
                    if isinstance(b, list) and n in b:
                        b[b.index(n)] = ast.copy_location(ast.Pass(), n)
                        return t
                for h in getattr(p, "handlers", []) or []:
                    if n in h.body:
                        h.body[h.body.index(n)] = ast.copy_location(ast.Pass(), n)
                        return t
            return None
        if kind == "cmp":
            n.ops = [CMP[type(n.ops[0])]()]
        elif kind == "bin":
            n.op = BIN[type(n.op)]()
        elif kind == "bool":
            n.op = ast.Or() if isinstance(n.op, ast.And) else ast.And()
        elif kind == "not":
            n.op = ast.UAdd() if False else n.op
            # `not x` -> `bool(x)`: rewrite through the parent
            for p in ast.walk(t):
                for fld, val in ast.iter_fields(p):
                    if val is n:
                        setattr(p, fld, n.operand)
                        return t
                    if isinstance(val, list) and n in val:
                        val[val.index(n)] = n.operand
                        return t
            return None
        elif kind == "neg":
            for p in ast.walk(t):
                for fld, val in ast.iter_fields(p):
                    if val is n:
                        setattr(p, fld, n.operand)
                        return t
                    if isinstance(val, list) and n in val:
                        val[val.index(n)] = n.operand
                        return t
            return None
        elif kind == "ifneg":
            n.test = ast.UnaryOp(op=ast.Not(), operand=n.test)
        elif kind == "const":
            n.value = n.value + 1
        elif kind == "boolconst":
            n.value = not n.value
        return ast.fix_missing_locations(t)
    return None


def run_one(job):
    k, (kind, idx, ln), src_tree, relfile, checks = job
    mt = apply(src_tree, kind, idx)
    if mt is None:
        return dict(id=k, kind=kind, line=ln, status="inapplicable")
    try:
        text = ast.unparse(ast.fix_missing_locations(mt))
        compile(text, relfile, "exec")
    except Exception as e:  # noqa
        return dict(id=k, kind=kind, line=ln, status="does_not_compile", err=str(e)[:100])
    d = tempfile.mkdtemp(prefix="pyvc_ms_", dir="/tmp")
    try:
        # the COMMITTED tree (not the working tree: seeded changes may be applied to /repo while a sweep runs)
        ar = subprocess.run(["git", "-C", REPO, "archive", "HEAD"], stdout=subprocess.PIPE, check=True).stdout
        subprocess.run(["tar", "-x", "-C", d], input=ar, check=True)
        with open(os.path.join(d, relfile), "w") as f:
            f.write(text + "\n")
        new_line = text.split("\n")
        rec = dict(id=k, kind=kind, line=ln)
        # 1. the repository's own tests
        env = dict(os.environ, PYTHONPATH=d)
        env.pop("PYVC_REPO", None)
        try:
            tr = subprocess.run(["/venv/bin/python", "-m", "pytest", "-q", "-x", "-p", "no:cacheprovider"], cwd=d, env=env,
                                stdout=subprocess.PIPE, stderr=subprocess.STDOUT, timeout=600)
            rec["tests_rc"] = tr.returncode
        except subprocess.TimeoutExpired:
            rec["tests_rc"] = "timeout"
        if rec["tests_rc"] != 0:
            rec["status"] = "killed_by_tests"
            return rec
        # 2. the checks
        rec["checks"] = {}
        env = dict(os.environ, PYVC_REPO=d, PYVC_EVIDENCE_DIR="/tmp/pyvc_scratch_evidence_ms", PYTHONHASHSEED="0",
                   PYVC_JOBS=os.environ.get("MS_CHECK_JOBS", "4"))
        killed = False
        for c in checks:
            try:
                cr = subprocess.run(["python3-vt", "-m", "pyvc.run", c, "--no-replay"], cwd=VERIF, env=env,
                                    stdout=subprocess.PIPE, stderr=subprocess.STDOUT, timeout=1500)
                rc = cr.returncode
                first = [l for l in cr.stdout.decode(errors="replace").split("\n") if l.startswith("  obligation")][:1]
            except subprocess.TimeoutExpired:
                rc, first = "timeout", []
            rec["checks"][c] = rc
            if rc == 1:
                rec["first"] = first[0][:200] if first else ""
                killed = True
                break
        rec["status"] = "killed_by_checks" if killed else "SURVIVOR"
        return rec
    finally:
        shutil.rmtree(d, ignore_errors=True)


def main():
    a = sys.argv[1:]
    relfile, out = a[0], a[1]
    opt = dict(checks="C01,C02,C05", sample="0", seed="1", jobs="4", only="")
    for x in a[2:]:
        k, _, v = x.lstrip("-").partition("=")
        opt[k] = v
    src = subprocess.run(["git", "-C", REPO, "show", "HEAD:" + relfile], stdout=subprocess.PIPE, check=True).stdout.decode()
    tree = ast.parse(src)
    ss = sites(tree)
    if opt["only"]:
        lo, hi = [int(x) for x in opt["only"].split("-")]
        ss = [s for s in ss if lo <= s[2] <= hi]
    rnd = random.Random(int(opt["seed"]))
    n = int(opt["sample"])
    if n and n < len(ss):
        ss = rnd.sample(ss, n)
    ss.sort(key=lambda s: (s[2], s[0], s[1]))
    checks = opt["checks"].split(",")
    jobs = [(k, s, tree, relfile, checks) for k, s in enumerate(ss)]
    print("%d mutation sites in %s; checks %s" % (len(jobs), relfile, checks), flush=True)
    res = []
    srclines = src.split("\n")
    with ThreadPoolExecutor(int(opt["jobs"])) as ex:
        for r in ex.map(run_one, jobs):
            r["source"] = srclines[r["line"] - 1].strip()[:100] if r.get("line") else ""
            res.append(r)
            tag = r["status"]
            if tag == "SURVIVOR":
                print("SURVIVOR %s line %d: %s   checks=%s" % (r["kind"], r["line"], r["source"], r.get("checks")), flush=True)
            json.dump(dict(file=relfile, checks=checks, results=res), open(out, "w"), indent=1)
    summ = {}
    for r in res:
        summ[r["status"]] = summ.get(r["status"], 0) + 1
    print("summary:", summ)


if __name__ == "__main__":
    main()
