#!/bin/bash
export PYVC_EVIDENCE_DIR=/tmp/pyvc_scratch_evidence   # checks against changed trees must not overwrite /verif/evidence
# tools/seed_eval.sh <seed id> <dir with patch.diff demo.py meta.json> [checks...]
# 1. confirms the seeded change independently in a fresh scratch worktree:
#      demo passes on the unchanged tree, the 75 tests pass with the change, demo fails with it
# 2. applies the change to /repo, runs the given checks (default: all 20), undoes it (git checkout -- .)
# 3. records everything in /verif/seeded/<id>/  (patch.diff, demo.py, meta.json, result.json)
set -u
ID="$1"; SRC="$2"; shift 2
CHECKS="${*:-C01 C02 C03 C04 C05 C06 C07 C08 C09 C10 C11 C12 C13 C14 C15 C16 C17 C18 C19 C20}"
OUT=/verif/seeded/$ID
mkdir -p "$OUT"
cp "$SRC/patch.diff" "$SRC/demo.py" "$OUT/" 2>/dev/null
[ -f "$SRC/meta.json" ] && cp "$SRC/meta.json" "$OUT/meta.json"
WT=/tmp/cf_$ID
git -C /repo worktree remove --force "$WT" >/dev/null 2>&1
git -C /repo worktree add -q "$WT" HEAD || exit 3
cd "$WT"
mkdir -p "$WT/seed"; cp "$OUT/demo.py" "$WT/seed/demo.py"     # demos locate the library relative to their own path
PYTHONPATH=$WT timeout 300 /venv/bin/python "$WT/seed/demo.py" >/tmp/cf_$ID.base.log 2>&1; BASE=$?
git apply "$OUT/patch.diff"; APPLY=$?
timeout 600 /venv/bin/python -m pytest -q -p no:cacheprovider --timeout=900 >/tmp/cf_$ID.tests.log 2>&1; TESTS=$?
PYTHONPATH=$WT timeout 300 /venv/bin/python "$WT/seed/demo.py" >/tmp/cf_$ID.mut.log 2>&1; MUT=$?
TESTLINE=$(grep -E "passed|failed" /tmp/cf_$ID.tests.log | tail -1)
cd /verif
git -C /repo worktree remove --force "$WT"
echo "confirm: demo_on_unchanged=$BASE apply=$APPLY tests=$TESTS ($TESTLINE) demo_on_changed=$MUT"
CONFIRMED=false
if [ $BASE -eq 0 ] && [ $APPLY -eq 0 ] && [ $TESTS -eq 0 ] && [ $MUT -ne 0 ]; then CONFIRMED=true; fi
# run the checks against /repo with the change applied
if [ -n "$(git -C /repo status --porcelain --untracked-files=no)" ]; then echo "/repo not clean, refusing"; exit 3; fi
git -C /repo apply "$OUT/patch.diff" || exit 3
RES=""
for c in $CHECKS; do
  timeout 900 ./check $c > /tmp/cf_$ID.$c.log 2>&1; rc=$?
  n=$(grep -c "^VIOLATION" /tmp/cf_$ID.$c.log)
  first=$(grep -A1 "^VIOLATION" /tmp/cf_$ID.$c.log | grep "obligation" | head -1 | sed 's/^ *obligation //' | cut -c1-160)
  conf=$(grep "^VIOLATION" /tmp/cf_$ID.$c.log | grep -vc "no-failing-input-found")
  echo "  $c rc=$rc violations=$n replay_confirmed=$conf $first"
  RES="$RES{\"check\":\"$c\",\"rc\":$rc,\"violation_lines\":$n,\"replay_confirmed\":$conf,\"first\":\"$(echo "$first" | sed 's/"/\\"/g')\"},"
done
git -C /repo checkout -- .
if [ -n "$(git -C /repo status --porcelain --untracked-files=no)" ]; then echo "WARNING /repo not clean after undo"; fi
python3 - "$OUT" "$ID" "$CONFIRMED" "$BASE" "$TESTS" "$MUT" "$TESTLINE" "[${RES%,}]" <<'EOF'
import json, sys
out, sid, conf, base, tests, mut, testline, res = sys.argv[1:9]
checks = json.loads(res)
meta = {}
try:
    meta = json.load(open(out + "/meta.json"))
except Exception:
    pass
meta.update(seed_id=sid, confirmed=(conf == "true"),
            confirmation=dict(demo_exit_on_unchanged_tree=int(base), tests_exit_with_change=int(tests), tests_summary=testline,
                              demo_exit_with_change=int(mut),
                              how="fresh scratch worktree of /repo HEAD: demo.py, git apply patch.diff, pytest, demo.py; worktree removed"),
            checks_run=checks, caught_by=[c["check"] for c in checks if c["rc"] == 1],
            how_checks_were_run="git -C /repo apply patch.diff; ./check <id>; git -C /repo checkout -- .")
json.dump(meta, open(out + "/meta.json", "w"), indent=1)
print("caught_by:", meta["caught_by"])
EOF
