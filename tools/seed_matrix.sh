#!/bin/bash
export PYVC_EVIDENCE_DIR=/tmp/pyvc_scratch_evidence   # checks against changed trees must not overwrite /verif/evidence
# tools/seed_matrix.sh [seed ids...]: every seeded change x every check, on scratch worktrees (never touches /repo)
# output: seeded/matrix.json  { seed: { check: rc } }
cd "$(dirname "$0")/.." || exit 3
SEEDS="${*:-$(ls seeded | grep '^S')}"
CHECKS="C01 C02 C03 C04 C05 C06 C07 C08 C09 C10 C11 C12 C13 C14 C15 C16 C17 C18 C19 C20"
echo "{" > seeded/matrix.tmp
first=1
for s in $SEEDS; do
  WT=/tmp/sm_$s
  git -C /repo worktree remove --force $WT >/dev/null 2>&1
  git -C /repo worktree add -q $WT HEAD || continue
  if ! git -C $WT apply "$PWD/seeded/$s/patch.diff"; then echo "patch $s does not apply"; git -C /repo worktree remove --force $WT; continue; fi
  [ $first -eq 1 ] || echo "," >> seeded/matrix.tmp
  first=0
  printf '"%s": {' "$s" >> seeded/matrix.tmp
  f2=1
  for c in $CHECKS; do
    PYVC_REPO=$WT timeout 900 ./check $c --no-replay > /tmp/sm_$s.$c.log 2>&1; rc=$?
    [ $f2 -eq 1 ] || printf ', ' >> seeded/matrix.tmp
    f2=0
    printf '"%s": %d' "$c" "$rc" >> seeded/matrix.tmp
    echo "$s $c rc=$rc"
  done
  echo "}" >> seeded/matrix.tmp
  git -C /repo worktree remove --force $WT
done
echo "}" >> seeded/matrix.tmp
mv seeded/matrix.tmp seeded/matrix.json
