#!/usr/bin/env python3-vt
"""List slow obligations for the given function substrings."""
import sys, os
sys.path.insert(0, os.path.dirname(os.path.dirname(os.path.abspath(__file__))))
from pyvc import verify, contract
import contracts
thr = 0.5
for nm in contract.REGISTRY:
    if not any(a in nm for a in sys.argv[1:]): continue
    K = contract.REGISTRY[nm]
    for cfg in K.configs("quick"):
        r = verify.run_config(K, cfg, facets="VCSTRNKEG")
        for o in r["obligations"]:
            if o["s"] > thr: print(nm.split(":")[1], cfg, o["name"], o["path"], o["verdict"], o["s"], o["backend"], flush=True)
