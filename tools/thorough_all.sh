#!/bin/bash
# every check at the thorough tier (scratch evidence dir), with wall time
export PYVC_EVIDENCE_DIR=/tmp/pyvc_scratch_evidence_thorough
cd "$(dirname "$0")/.." || exit 3
for p in C01 C02 C03 C04 C05 C06 C07 C08 C09 C10 C11 C12 C13 C14 C15 C16 C17 C18 C19 C20 selftest; do
  s=$(date +%s); timeout 3000 ./check $p --tier thorough > /tmp/th_$p.log 2>&1; rc=$?; e=$(date +%s)
  echo "$p rc=$rc $((e-s))s $(grep 'tier=' /tmp/th_$p.log | cut -c1-170)"
  grep -E "^(VIOLATION|UNDECIDED|CHECKER-BROKEN)" /tmp/th_$p.log | head -5 | cut -c1-250
done
